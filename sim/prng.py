"""One integer decides everything.

run_seed = sha256("<VERIF_SEED>/<property>/<run_index>"); every concern draws from
its own named sub-stream so that adding a draw in one concern never shifts another.
Nothing here reads a clock, os.urandom or the str hash.
"""
import hashlib
import random


def derive(*parts) -> int:
    s = "/".join(str(p) for p in parts)
    return int.from_bytes(hashlib.sha256(s.encode()).digest()[:8], "big")


class Streams:
    def __init__(self, base_seed: int, prop: str, index):
        self.base_seed = base_seed
        self.prop = prop
        self.index = index
        self.run_seed = derive(base_seed, prop, index)

    def rng(self, name: str) -> random.Random:
        return random.Random(derive(self.run_seed, name))

    def sub(self, name: str) -> int:
        return derive(self.run_seed, name)


def digest(*parts) -> str:
    h = hashlib.sha256()
    for p in parts:
        if isinstance(p, (bytes, bytearray)):
            h.update(b"b%d:" % len(p))
            h.update(bytes(p))
        else:
            s = repr(p).encode()
            h.update(b"r%d:" % len(s))
            h.update(s)
    return h.hexdigest()
