"""C18 (fault-free arm) and C19 (fault arm) of the decoder simulator."""
import os
import time

from . import REPO, decsim, faults, formats
from .decsim import Env, env_valid, simulate
from .formats import STDIN_OK, STDOUT_OK
from .prng import Streams, digest
from .runner import (EXIT_HARNESS, EXIT_OK, EXIT_VIOLATION, HarnessFailure, b64, base_seed,
                     chunks, fresh_interpreter, load_findings, pmap, say, unb64,
                     write_evidence, write_replay)
from .world import CHUNK_KINDS

MAX_REPORTED = 12          # distinct violation signatures minimised and reported per run
SMALL_FORMATS = ("hrs", "max", "art", "pix")
BIG_FORMATS = ("mge", "rat", "cm3", "vef")
_FIXTURES = None


def _fixtures():
    global _FIXTURES
    if _FIXTURES is None:
        _FIXTURES = formats.fixtures(REPO)
    return _FIXTURES


def warm():
    """Import everything a run may import lazily, before any World is entered, so that no
    module ever captures a patched function and no run depends on its predecessors."""
    from . import use_repo
    use_repo()
    import coco.util  # noqa
    for t in ("hrstoppm", "maxtoppm", "mgetoppm", "cm3toppm", "rattoppm", "pixtopgm", "veftopng"):
        __import__("coco." + t)
    import png  # noqa
    from PIL import Image, PngImagePlugin  # noqa
    Image.preinit()
    _fixtures()


# ============================================================================= environments
def draw_env(rng, tool, force_stdin=False):
    ins = ["path", "fifo", "devstdin"] + (["dash", "default", "redir", "redir_off"] if tool in STDIN_OK else [])
    outs = ["path"] + (["dash", "default", "devstdout"] if tool in STDOUT_OK else [])
    for _ in range(50):
        if force_stdin and tool in STDIN_OK:
            ik = rng.choice(("dash", "default"))
        else:
            ik = rng.choice(ins) if rng.random() < 0.6 else "path"
        ok = rng.choice(outs) if rng.random() < 0.6 else "path"
        pre = rng.choice((1, 100, 10_000, 1_000_000)) if ok == "path" and rng.random() < 0.35 else 0
        e = Env(ik, ok, rng.choice(CHUNK_KINDS), rng.choice(CHUNK_KINDS),
                rng.getrandbits(32), rng.getrandbits(32), pre,
                unbuf=(ok != "path" and rng.random() < 0.1),
                names=rng.choice((0, 0, 0, 0, 1, 2, 3, 4, 5, 6, 7, 8, 9, 10, 11)),
                spell=rng.getrandbits(30) if rng.random() < 0.3 else 0,
                late_opts=rng.random() < 0.15,
                inplace=(tool == "veftopng" and rng.random() < 0.2),
                opt=rng.choice((1, 2)) if rng.random() < 0.08 else 0,
                envseed=rng.getrandbits(30) if rng.random() < 0.2 else 0)
        if e.inplace:
            e.in_kind, e.out_kind = "path", "path"
        if env_valid(tool, e):
            return e
    return Env()


def all_env_shapes(tool):
    out = []
    for ik in ("path", "dash", "default"):
        for ok in ("path", "dash", "default"):
            e = Env(ik, ok)
            if env_valid(tool, e):
                out.append((ik, ok))
    return out


# ============================================================================= known findings
def known_c18(case_tool, opts, dims, run):
    """-> id of the matching known finding, or None."""
    if run.cls != "fewer_samples" or not run.success:
        return None
    w, h = dims
    have = run.info.get("have")
    if (run.info.get("w"), run.info.get("h")) != (w, h):
        return None
    if case_tool == "hrstoppm" and w % 2 == 1 and have == 3 * (w - 1) * h:
        return "hrstoppm-odd-width"
    if case_tool == "maxtoppm" and "-newsroom" not in opts and w % 8 != 0 \
            and have == 3 * 8 * (w >> 3) * h:
        return "maxtoppm-width-not-multiple-of-8"
    return None


def known_c19(tool, data, run):
    if tool != "cm3toppm" or not run.success or run.cls not in ("fewer_samples", "more_samples"):
        return None
    lines = formats.cm3_walk(data)
    if not lines:
        return None
    h = run.info.get("h")
    if run.info.get("w") != 320 or h != 192 * len(lines):
        return None
    if sum(lines) != h and run.info.get("have") == 960 * sum(lines):
        return "cm3toppm-lines-byte"
    return None


# ============================================================================= C19
C19_WEIGHTS = (("hrs", 14), ("max", 16), ("art", 8), ("pix", 8), ("mge", 15), ("rat", 11),
               ("cm3", 12), ("vef", 16))


def _pick(rng, weights):
    tot = sum(w for _, w in weights)
    x = rng.randrange(tot)
    for k, w in weights:
        if x < w:
            return k
        x -= w
    return weights[-1][0]


def c19_case(seed, index):
    st = Streams(seed, "C19", index)
    wr = st.rng("workload")
    if wr.random() < 0.08 and _fixtures():
        case = wr.choice(_fixtures())
    else:
        fmt = _pick(wr, C19_WEIGHTS)
        small = wr.random() < 0.85
        if fmt == "hrs":
            case = formats.gen_hrs(wr, small=small, odd_ok=False, with_opts=wr.random() < 0.85)
        elif fmt == "max":
            case = formats.gen_max(wr, small=small, w8_only=True, with_opts=wr.random() < 0.85)
        else:
            case = formats.GEN[fmt](wr, small=small)
    fr = st.rng("faults")
    plan, kinds = faults.gen_plan(fr, case)
    if case.fmt == "max" and "-r" not in case.opts and fr.random() < 0.08:
        # a coordinated pair: the length field changed AND the data really made that long, the
        # postamble following it (a "fractional page" the tool does not support)
        hdr = case.skip
        size = case.data[hdr + 1] * 256 + case.data[hdr + 2]
        d = fr.choice((1, -1, 3, -16, 17, fr.randint(-31, 31) or 5))
        if size + d > 0 and len(case.data) >= hdr + 10 + max(0, -d):
            plan = [{"kind": "relength", "hdr": hdr, "delta": d}] + plan[:1]
    if fr.random() < 0.03:
        # wrong format altogether: a perfectly valid file, of another format
        other = fr.choice([f for f in formats.FORMATS if formats.TOOL_OF[f] != case.tool])
        oc = formats.GEN[other](fr, small=True)
        plan = [{"kind": "replace", "data_b64": b64(oc.data), "from_format": other}] + plan[:1]
    er = st.rng("env")
    env = draw_env(er, case.tool, force_stdin=any(f["kind"] == "pipe_eof" for f in plan))
    return case, plan, env


def c19_classify(tool, data, run):
    """-> (verdict, cls) with verdict in ok / known:<id> / violation."""
    if run.cls == "hang":
        return "violation", "hang"
    if not run.success:
        return "ok", "failure_reported"
    if run.cls == "complete":
        return "ok", "complete"
    k = known_c19(tool, data, run)
    if k:
        return "known:" + k, run.cls
    return "violation", run.cls


def c19_execute(case, plan, env, budget_scale=None):
    data, dmg, eff = faults.apply_plan(plan, case.data)
    budget = None
    if budget_scale:
        budget = max(100_000, int(decsim.step_budget(case.tool, case.opts, data) * budget_scale))
    run = simulate(case.tool, case.opts, data, env, damaged=dmg, boundaries=case.offsets(),
                   budget=budget, wall=4 if budget_scale else None)
    verdict, cls = c19_classify(case.tool, data, run)
    return data, dmg, eff, run, verdict, cls


def c19_one(seed, index, hangs=None):
    """hangs: per-chunk count of confirmed hangs by tool.  Once a tool has hung twice in this
    chunk (so a violation is already certain to be reported for it) further runs of that tool
    get a twentieth of the step budget and, if they exceed it, are recorded as `hang_suspect`
    instead of being run to the full budget.  Never happens on a tree without hangs."""
    case, plan, env = c19_case(seed, index)
    reduced = hangs is not None and hangs.get(case.tool, 0) >= 2
    data, dmg, eff, run, verdict, cls = c19_execute(case, plan, env, 0.05 if reduced else None)
    if cls == "hang":
        if reduced:
            verdict, cls = "suspect", "hang_suspect"
        elif hangs is not None:
            hangs[case.tool] = hangs.get(case.tool, 0) + 1
    observed = run.consumed or run.short is not None
    rec = {
        "i": index, "fmt": case.fmt, "tool": case.tool,
        "kinds": [f["kind"] for f in plan], "eff": eff,
        "verdict": verdict, "cls": cls, "site": run.signature_site(),
        "observed": observed, "steps": run.steps, "events": run.events,
        "env": env.key(), "digest": run.digest(),
        "in_digest": digest(case.tool, run.argv, data, env.key())[:16],
        "detail": run.outcome.detail,
        "short": run.short is not None, "dmg_consumed": run.consumed,
        "raw_reads": run.raw_reads, "raw_writes": run.raw_writes,
        "removed": bool(run.removed), "ignore": "-i" in case.opts,
        "hdr_where": _where(case, plan),
    }
    return rec


def _where(case, plan):
    """Which structural region the first truncation-like fault lands in (reach probe)."""
    for f in plan:
        if f["kind"] in ("truncate", "pipe_eof"):
            at = f["at"]
            best = None
            for o, k in case.smap:
                if o <= at and (best is None or o >= best[0]):
                    best = (o, k)
            return "eof@" + (best[1] if best else "start")
        if f["kind"] in ("bitflip", "set"):
            at = f["at"]
            for o, k in case.smap:
                if o == at:
                    return f["kind"] + "@" + k
            return f["kind"] + "@payload"
    return plan[0]["kind"] if plan else "none"


def c19_chunk(arg):
    seed, a, b = arg
    warm()
    hangs = {}
    return [c19_one(seed, i, hangs) for i in range(a, b)]


def c19_signature(tool, cls, run):
    return (tool, cls, run.signature_site())


def c19_minimise(arg):
    """Shrink the fault plan (and the environment) of run `index` while the same
    violation signature persists; then write the replay file."""
    seed, index = arg
    warm()
    case, plan, env = c19_case(seed, index)
    data, dmg, eff, run, verdict, cls = c19_execute(case, plan, env)
    if verdict != "violation":
        raise HarnessFailure("run %d did not reproduce in the minimiser" % index)
    sig = c19_signature(case.tool, cls, run)
    tries = [0]

    def still(p, e, base=None):
        tries[0] += 1
        c = case if base is None else base
        d2, dm2, ef2, r2, v2, c2 = c19_execute(c, p, e)
        return v2 == "violation" and c19_signature(c.tool, c2, r2) == sig

    # 1. drop faults
    changed = True
    while changed and len(plan) > 1:
        changed = False
        for k in range(len(plan)):
            p2 = plan[:k] + plan[k + 1:]
            if still(p2, env):
                plan, changed = p2, True
                break
    # 2. simplest environment (not for hangs: every attempt may cost the whole backstop)
    for e2 in (() if cls == "hang" else (Env(), Env(env.in_kind, env.out_kind),
                                          Env(env.in_kind, "path", env.in_chunk, "whole", env.in_seed, 0))):
        if env_valid(case.tool, e2) and e2.to_json() != env.to_json() and \
                not any(f["kind"] == "pipe_eof" for f in plan) and still(plan, e2):
            env = e2
            break
    # 3. numeric shrink per fault (skipped for hangs: every attempt costs a full step budget)
    for k in range(len(plan) if cls != "hang" else 0):
        for key in ("at", "val", "n", "bit", "sector", "keep"):
            if key not in plan[k]:
                continue
            lo, cur = 0, plan[k][key]
            # try zero first, then bisect towards the smallest value that still fails
            cand = dict(plan[k], **{key: 0})
            if cur != 0 and still(plan[:k] + [cand] + plan[k + 1:], env):
                plan = plan[:k] + [cand] + plan[k + 1:]
                continue
            for _ in range(18):
                if cur - lo <= 1:
                    break
                mid = (lo + cur) // 2
                cand = dict(plan[k], **{key: mid})
                if still(plan[:k] + [cand] + plan[k + 1:], env):
                    plan = plan[:k] + [cand] + plan[k + 1:]
                    cur = mid
                else:
                    lo = mid
    # 4. constant payload where that keeps the file well-formed enough to fail the same way
    struct = set(case.offsets())
    flat = bytearray(case.data)
    for i in range(len(flat)):
        if i not in struct:
            flat[i] = 0
    base = formats.Case(case.fmt, case.opts, bytes(flat), case.smap, case.dims, case.params,
                        case.skip, case.alt_dims)
    if cls != "hang" and still(plan, env, base):
        case = base
    data, dmg, eff, run, verdict, cls = c19_execute(case, plan, env)
    doc = c19_replay_doc(seed, index, case, plan, env, data, run, cls)
    doc["minimiser_runs"] = tries[0]
    path = write_replay("C19", "%d-%d" % (seed, index), doc)
    return {"index": index, "sig": list(sig), "replay": path, "digest": run.digest(),
            "plan": plan, "tries": tries[0]}


def c19_replay_doc(seed, index, case, plan, env, data, run, cls):
    return {
        "kind": "decoder-fault-run", "seed": seed, "index": index,
        "tool": case.tool, "opts": case.opts, "env": env.to_json(),
        "input_b64": b64(data), "input_len": len(data),
        "base_case": case.describe(), "fault_plan": plan,
        "damaged_offsets": faults.apply_plan(plan, case.data)[1],
        "boundaries": sorted(set(case.offsets()))[:4096],
        "expect": {"class": cls, "site": run.signature_site(), "digest": run.digest(),
                   "exit": run.outcome.as_tuple(), "info": run.info},
    }


def c19_replay(doc):
    warm()
    env = Env.from_json(doc["env"])
    data = unb64(doc["input_b64"])
    dmg = doc.get("damaged_offsets", [])
    run = simulate(doc["tool"], doc["opts"], data, env, damaged=dmg,
                   boundaries=doc.get("boundaries", ()))
    verdict, cls = c19_classify(doc["tool"], data, run)
    return verdict, cls, run


# ----------------------------------------------------------------------------- sweeps
_MIN = None


def minimal_cases():
    global _MIN
    if _MIN is None:
        _MIN = _minimal_cases()
    return _MIN


def _minimal_cases():
    """Small but structurally complete valid files of each format for the exhaustive
    every-prefix sweep, plus a few full-size ones swept with a stride."""
    import random
    out = []
    r = random.Random(12345)

    def pick(fmt, lo, hi, want=None, **kw):
        best = None
        for _ in range(300):
            c = formats.GEN[fmt](r, **kw)
            if want and not want(c):
                continue
            if lo <= len(c.data) <= hi and (best is None or len(c.data) < len(best.data)):
                best = c
        if best is None:
            raise HarnessFailure("no %s case of %d..%d bytes" % (fmt, lo, hi))
        return best
    out.append(pick("hrs", 60, 400, lambda c: c.skip > 0, small=True))
    out.append(pick("hrs", 40, 400, lambda c: c.skip == 0, small=True))
    out.append(pick("max", 40, 400, lambda c: "-r" not in c.opts and "-i" not in c.opts, small=True))
    out.append(pick("max", 40, 400, lambda c: "-r" in c.opts and "-i" in c.opts, small=True))
    out.append(pick("art", 20, 400, small=True))
    out.append(pick("pix", 30, 600, small=True))
    out.append(pick("mge", 0, 2000, lambda c: not c.params["raw"]))
    out.append(pick("rat", 0, 3000))
    out.append(pick("cm3", 0, 9000, lambda c: c.params["pages"] == 1))
    out.append(pick("cm3", 0, 20000, lambda c: c.params["pages"] == 2))
    out.append(pick("vef", 0, 6000, lambda c: c.params["squashed"]))
    # full-size files, strided
    out.append(pick("vef", 10000, 40000, lambda c: not c.params["squashed"]))
    out.append(pick("mge", 30000, 40000, lambda c: c.params["raw"]))
    out.append(formats.gen_hrs(r, with_opts=False))
    out.append(formats.gen_max(r, with_opts=False))
    # one row wider than a 64 KiB block
    out.append(plain_case("hrs", 131074, 1, 0))
    out.append(plain_case("max", 8 * 65540, 1, 0))
    # a skip longer than a 64 KiB block
    out.append(plain_case("max", 16, 2, 70000))
    out.append(plain_case("hrs", 8, 2, 100000))
    return out


# sweep-file index -> (offset of the first image line, bytes per line) for the raw full-size files
LINE_BYTES = {11: (18, 80), 12: (51, 160), 13: (16, 160), 14: (5, 32)}


_TAILV = None


def tail_variants():
    """More full-size variants for the tail sweep only (2-page CM3 with raw lines, VEF of every
    type raw and squashed, composite raw MGE, RAT with escape 0xFF, Newsroom art)."""
    global _TAILV
    if _TAILV is None:
        import random
        r = random.Random(4711)
        want = [("cm3", lambda c: c.params["pages"] == 2 and c.params["praw"] == 1.0),
                ("cm3", lambda c: c.params["pages"] == 2 and c.params["praw"] == 0.0 and c.params["patterns"]),
                ("vef", lambda c: c.params["type"] == 1 and c.params["squashed"]),
                ("vef", lambda c: c.params["type"] == 1 and not c.params["squashed"]),
                ("vef", lambda c: c.params["type"] == 0 and not c.params["squashed"]),
                ("vef", lambda c: c.params["type"] == 3 and c.params["squashed"]),
                ("mge", lambda c: c.params["raw"] and not c.params["rgb"]),
                ("rat", lambda c: c.params["esc"] in (0, 255)),
                ("art", lambda c: len(c.data) > 300),
                ("pix", lambda c: c.params["k"] >= 90)]
        out = []
        for fmt, ok in want:
            for _ in range(400):
                c = formats.GEN[fmt](r, small=False)
                if ok(c):
                    out.append(c)
                    break
        _TAILV = out
    return _TAILV


def c19_tail_chunk(arg):
    """Enumeration for the quick tier: every sweep file cut 1, 2, 3, 16, 256 and 4000 bytes
    before its end (a download that stopped just short), by file and by pipe."""
    ci, part, nparts = arg
    warm()
    case = minimal_cases()[ci] if ci >= 0 else tail_variants()[-ci - 1]
    recs = []
    n = len(case.data)
    backs = list(range(1, 33)) + [40, 48, 64, 100, 161, 256, 700, 1500, 4000]
    # ... and a copy that barely started: the first bytes only
    heads = [k for k in (0, 1, 2, 3, 5, 16, 17, 18, 19, 21, 51, 100, 1000, 4000) if k < n]
    cuts = sorted(set([(n - back) for back in backs if n - back >= 0] + heads))
    envs = (Env(), Env("dash", "dash", "small", "small", n, n))
    line = LINE_BYTES.get(ci)
    if line:
        # the full-size raw files: also every line start (a copy that stopped at a row end)
        start, step = line
        cuts = sorted(set(cuts + list(range(start, n + 1, step))))
        envs = (Env(),)
    for k in cuts[part::nparts]:
        plan = [{"kind": "truncate", "at": k}]
        for env in (envs if n - k <= 5 or line else envs[:1]):
            if not env_valid(case.tool, env):
                continue
            data, dmg, eff, run, verdict, cls = c19_execute(case, plan, env)
            recs.append({"ci": ci, "k": k, "tool": case.tool, "verdict": verdict, "cls": cls,
                         "site": run.signature_site(), "env": env.key(), "steps": run.steps,
                         "digest": run.digest()})
    return recs


def c19_prefix_chunk(arg):
    ci, a, b, stride = arg
    warm()
    case = minimal_cases()[ci]
    recs = []
    for k in range(a, b, stride):
        plan = [{"kind": "truncate", "at": k}]
        for env in (Env(), Env("dash", "dash", "small", "small", k, k)):
            if not env_valid(case.tool, env):
                continue
            data, dmg, eff, run, verdict, cls = c19_execute(case, plan, env)
            recs.append({"ci": ci, "k": k, "tool": case.tool, "verdict": verdict, "cls": cls,
                         "site": run.signature_site(), "env": env.key(), "steps": run.steps,
                         "digest": run.digest()})
    return recs


_STRUCT = None


def structured_cases():
    """Full-size compressed files in which every image line is exactly one compression unit
    (one MGE run, one RAT escape triple, one CM3 control byte, two VEF records), so that unit
    boundaries coincide with line starts.  Swept control byte by control byte."""
    global _STRUCT
    if _STRUCT is not None:
        return _STRUCT
    import random
    r = random.Random(777)
    out = []
    # MGE: 200 runs of 160
    hdr, smap = formats.mge_header(r, raw=False, rgb=True)
    body = bytearray()
    ctrl = []
    prev = -1
    for y in range(200):
        c = r.getrandbits(8)
        while c == prev:
            c = r.getrandbits(8)
        prev = c
        ctrl.append(len(body))
        body += bytes([160, c])
    body.append(0)
    out.append(formats.Case("mge", [], hdr + bytes(body), smap + [(51 + c, "ctrl") for c in ctrl] +
                            [(51 + len(body) - 1, "trailer")], (320, 200), {"structured": "run per line"}))
    # RAT: 199 escape triples of 160
    esc = 0x55
    pal = bytes(r.randint(0, 63) for _ in range(16))
    body = bytearray()
    ctrl = []
    for y in range(199):
        c = r.choice([v for v in range(256) if v != esc])
        ctrl.append(len(body) + 1)
        body += bytes([esc, 160, c])
    out.append(formats.Case("rat", [], bytes([esc, 1, 0]) + pal + bytes(body),
                            [(0, "flag"), (1, "flag")] + [(19 + c, "ctrl") for c in ctrl], (320, 199),
                            {"structured": "triple per line"}))
    # CM3 (compressed lines only) and squashed VEF from the generators, "rows" payloads
    for _ in range(200):
        c3 = formats.gen_cm3(r)
        if c3.params["praw"] == 0.0 and c3.params["pages"] == 1:
            out.append(c3)
            break
    for _ in range(200):
        v = formats.gen_vef(r)
        if v.params["squashed"] and v.params["type"] == 0:
            # keep only the per-record count bytes
            first = dict((o, k) for o, k in v.smap)
            out.append(v)
            break
    _STRUCT = out
    return out


def struct_sweep_tasks(tier):
    tasks = []
    vals = (0,) if tier == "quick" else QUICK_VALUES
    for si, c in enumerate(structured_cases()):
        offs = [o for o, k in c.smap if k == "ctrl"]
        if tier == "quick":
            offs = offs[:420]
        for a in range(0, len(offs), 24):
            tasks.append(("struct", si, offs[a:a + 24], vals))
    return tasks


FIELD_KINDS = ("magic", "size", "flag", "page")
QUICK_VALUES = (0, 1, 2, 3, 4, 5, 8, 16, 0x3F, 0x40, 0x7F, 0x80, 0x81, 0xC0, 0xFE, 0xFF)


def field_sweep_tasks(tier):
    """Enumeration: every header byte of kind magic/size/flag/page of each sweep file set to
    each value of a list (quick: 16 boundary values; thorough: all 256, palette bytes too)."""
    tasks = []
    for ci, c in enumerate(minimal_cases()[:13]):      # incl. the raw VEF and the raw MGE
        kinds = FIELD_KINDS + (("pal",) if tier == "thorough" and ci < 11 else ())
        offs = [o for o, k in c.smap if k in kinds][:24 if tier == "quick" else 64]
        vals = QUICK_VALUES if tier == "quick" else tuple(range(256))
        per = 4 if len(c.data) > 2000 else 16
        for a in range(0, len(offs), per):
            tasks.append(("min", ci, offs[a:a + per], vals))
        if tier == "quick":
            # palette bytes: just beyond the 6-bit range, the sign bit, all ones
            pal = [o for o, k in c.smap if k == "pal"]
            for a in range(0, len(pal), per):
                tasks.append(("min", ci, pal[a:a + per], (0x40, 0x80, 0xFF)))
    return tasks + struct_sweep_tasks(tier)


def sweep_case(src, ci):
    return (structured_cases() if src == "struct" else minimal_cases())[ci]


def c19_field_chunk(arg):
    src, ci, offs, vals = arg
    warm()
    case = sweep_case(src, ci)
    recs = []
    env = Env()
    for o in offs:
        for v in vals:
            if case.data[o] == v:
                continue
            plan = [{"kind": "set", "at": o, "val": v}]
            data, dmg, eff, run, verdict, cls = c19_execute(case, plan, env)
            recs.append({"src": src, "ci": ci, "k": o, "v": v, "tool": case.tool, "verdict": verdict, "cls": cls,
                         "site": run.signature_site(), "env": env.key(), "steps": run.steps,
                         "digest": run.digest()})
    return recs


# ----------------------------------------------------------------------------- fidelity
def real_cli(tool, opts, data, env, tmpdir):
    """Run the real CLI with real files and a real pipe; returns (success, out_bytes|None)."""
    import subprocess
    from . import PYTHON
    from .decsim import paths_for, spell_argv
    si, so = paths_for(tool, env.names)

    def real(pth):     # the simulated name mapped under the scratch directory
        if pth.startswith("/simfs/"):
            return os.path.normpath(os.path.join(tmpdir, "root", pth[len("/simfs/"):]))
        return os.path.join(tmpdir, "cwd", pth)
    os.makedirs(os.path.join(tmpdir, "cwd"), exist_ok=True)
    inp, outp = real(si), real(so)
    for p_ in (inp, outp):
        os.makedirs(os.path.dirname(p_), exist_ok=True)
        if os.path.exists(p_):
            os.remove(p_)
    from .decsim import NAME_STYLES, SIBLINGS
    for sib in SIBLINGS.get(env.names % len(NAME_STYLES), ()):
        os.makedirs(os.path.dirname(real(sib)), exist_ok=True)
        with open(real(sib), "wb") as f:
            f.write(bytes(len(data)))
    argv = spell_argv(tool, opts, env.spell)
    pos = []
    stdin = None
    if env.inplace:
        inp, si = outp, so
    feeder = None
    from .decsim import SYMLINK_STYLE, SYMLINK_TARGET
    if env.in_kind == "path" and env.names % len(NAME_STYLES) == SYMLINK_STYLE and not env.inplace:
        tgt = os.path.join(os.path.dirname(inp), SYMLINK_TARGET)
        os.makedirs(os.path.dirname(tgt), exist_ok=True)
        with open(tgt, "wb") as f:
            f.write(data)
        os.symlink(SYMLINK_TARGET, inp)
        pos.append(inp)
    elif env.in_kind == "path":
        with open(inp, "wb") as f:
            f.write(data)
        pos.append(inp if si.startswith("/") else si)
    elif env.in_kind == "fifo":
        import threading
        os.mkfifo(inp)

        def feed():
            try:
                with open(inp, "wb") as f:
                    f.write(data)
            except OSError:
                pass
        feeder = threading.Thread(target=feed, daemon=True)
        feeder.start()
        pos.append(inp if si.startswith("/") else si)
    elif env.in_kind in ("redir", "redir_off"):
        import random as _r0
        k = 0 if env.in_kind == "redir" else 1 + env.in_seed % 97
        with open(os.path.join(tmpdir, "redir.bin"), "wb") as f:
            f.write(_r0.Random(env.in_seed).randbytes(k) + data)
        stdin = open(os.path.join(tmpdir, "redir.bin"), "rb")
        stdin.seek(k)
        pos.append("-")
    else:
        stdin = data
        if env.in_kind == "dash":
            pos.append("-")
        elif env.in_kind == "devstdin":
            pos.append("/dev/stdin")
    if env.out_kind == "path":
        pos.append(outp if so.startswith("/") else so)
        if env.out_pre and not env.inplace:
            import random as _r
            with open(outp, "wb") as f:
                f.write(_r.Random(env.out_seed).randbytes(env.out_pre))
    elif env.out_kind == "dash":
        pos.append("-")
    elif env.out_kind == "devstdout":
        pos.append("/dev/stdout")
    argv = pos + argv if env.late_opts and pos else argv + pos
    from .decsim import env_vars
    envv = dict(os.environ, PYTHONPATH=REPO, PYTHONDONTWRITEBYTECODE="1")
    envv.pop("PYTHONUNBUFFERED", None)
    if env.unbuf:
        envv["PYTHONUNBUFFERED"] = "1"
    envv.update(env_vars(env.envseed, env.names))
    pyopt = ["-" + "O" * env.opt] if env.opt else []
    try:
        if hasattr(stdin, "read"):
            os.lseek(stdin.fileno(), stdin.tell(), 0)     # the child inherits the file offset
            p = subprocess.run([PYTHON] + pyopt + ["-m", "coco." + tool] + argv, stdin=stdin,
                               capture_output=True, env=envv, cwd=os.path.join(tmpdir, "cwd"), timeout=120)
            stdin.close()
            os.remove(os.path.join(tmpdir, "redir.bin"))
        else:
            p = subprocess.run([PYTHON] + pyopt + ["-m", "coco." + tool] + argv,
                               input=stdin if stdin is not None else b"",
                               capture_output=True, env=envv, cwd=os.path.join(tmpdir, "cwd"), timeout=120)
    except subprocess.TimeoutExpired:
        for q in (inp, outp):
            if os.path.exists(q):
                os.remove(q)
        return None, None, "timeout"
    if env.out_kind == "path":
        out = None
        if os.path.exists(outp):
            with open(outp, "rb") as f:
                out = f.read()
    else:
        out = p.stdout
    ok = p.returncode == 0
    if ok and out is None and tool == "maxtoppm":
        ok = False
    if feeder is not None and feeder.is_alive():
        try:                                   # the tool never opened the pipe: release the writer
            fd = os.open(inp, os.O_RDONLY | os.O_NONBLOCK)
            os.close(fd)
        except OSError:
            pass
        feeder.join(5)
    for q in (inp, outp):
        if os.path.exists(q):
            os.remove(q)
    return ok, out, p.returncode


def fidelity_chunk(arg):
    prop, seed, idxs = arg
    import tempfile
    warm()
    bad = []
    n = 0
    with tempfile.TemporaryDirectory(prefix="verif-fid-", dir=os.environ.get("TMPDIR") or None) as td:
        for i in idxs:
            if prop == "C19":
                case, plan, env = c19_case(seed, i)
                data, dmg, eff, run, verdict, cls = c19_execute(case, plan, env)
            else:
                case, envs = c18_case(seed, i)
                env = envs[i % len(envs)]
                data = case.data
                run = simulate(case.tool, case.opts, data, env, boundaries=case.offsets())
            if run.cls in ("hang", "hang_suspect"):
                continue                      # never wait for a real process that will not end
            if env.in_kind == "devstdin" or env.out_kind == "devstdout":
                continue                      # real runs only ever name files under the scratch directory
                                              # (maxtoppm REMOVES its output name on failure)
            ok, out, rc = real_cli(case.tool, case.opts, data, env, td)
            n += 1
            same = (ok == run.success)
            if same and ok:
                same = (out == run.out)
            if not same:
                bad.append({"i": i, "tool": case.tool, "opts": case.opts, "env": env.to_json(),
                            "sim": [run.success, run.outcome.detail, len(run.out or b"")],
                            "real": [ok, rc, len(out or b"")]})
    return n, bad


# ============================================================================= C18
C18_WEIGHTS = (("hrs", 22), ("max", 24), ("art", 10), ("pix", 8), ("mge", 9), ("rat", 8),
               ("cm3", 9), ("vef", 10))


def c18_case(seed, index):
    st = Streams(seed, "C18", index)
    wr = st.rng("workload")
    fx = _fixtures()
    if wr.random() < 0.04 and fx:
        case = wr.choice(fx)
    else:
        fmt = _pick(wr, C18_WEIGHTS)
        small = wr.random() < 0.9
        if fmt == "hrs":
            case = formats.gen_hrs(wr, small=small, odd_ok=True, with_opts=wr.random() < 0.9)
        elif fmt == "max":
            case = formats.gen_max(wr, small=small, w8_only=False, with_opts=wr.random() < 0.9)
        else:
            case = formats.GEN[fmt](wr, small=small)
    longest = st.rng("longest").random() < 0.025
    if longest:
        # its own stream, so that every other case of the seed stays what it was
        case = formats.gen_longest(st.rng("longest-case"))
    er = st.rng("env")
    n_extra = 4 if case.fmt in SMALL_FORMATS and len(case.data) < 4000 else 2
    envs = [Env()]
    seen = {Env().key()}
    for _ in range(n_extra * 3):
        if len(envs) > n_extra:
            break
        e = draw_env(er, case.tool)
        if longest:
            # megabytes of output: byte-sized chunks would cost half a minute per run
            e.in_chunk = {"one": "small", "boundary": "page"}.get(e.in_chunk, e.in_chunk)
            e.out_chunk = {"one": "small", "tiny": "small", "boundary": "page"}.get(e.out_chunk, e.out_chunk)
        if e.key() not in seen:
            seen.add(e.key())
            envs.append(e)
    return case, envs


def strip_skip(case):
    """The same decode with the first N bytes removed and no -s option."""
    if "-s" not in case.opts:
        return None
    k = case.opts.index("-s")
    n = int(case.opts[k + 1])
    opts = case.opts[:k] + case.opts[k + 2:]
    return opts, case.data[n:]


def c18_check_case(case, envs):
    """-> (list of problems, per-run records).  A problem is (cls, env_index, detail)."""
    problems = []
    recs = []
    base_out = None
    known = None
    for ei, env in enumerate(envs):
        run = simulate(case.tool, case.opts, case.data, env, boundaries=case.offsets())
        dims = (run.info.get("w"), run.info.get("h")) if run.success else None
        rec = {"env": env.key(), "cls": run.cls, "success": run.success, "steps": run.steps,
               "digest": run.digest(), "raw_reads": run.raw_reads, "raw_writes": run.raw_writes,
               "events": run.events}
        recs.append(rec)
        if run.cls == "hang":
            problems.append(("hang", ei, run.outcome.detail))
            continue
        if ei == 0 and not run.success and run.outcome.detail == "SystemExit(2)" \
                and "usage:" in run.outcome.stderr and not run.out:
            # the option parser itself refuses this combination: the property quantifies over
            # "the widths, heights and skips the option parser accepts", so this is no case
            rec["cls"] = "options_rejected"
            return [], recs, None
        if not run.success and run.outcome.detail == "SystemExit(2)" and "usage:" in run.outcome.stderr \
                and (env.inplace or env.in_kind == "fifo" or env.spell or env.late_opts or env.names):
            # the argument parser itself refuses this argument shape (e.g. "input and output
            # must differ"): not a combination the tool accepts, so nothing to compare
            rec["cls"] = "shape_rejected"
            continue
        if not run.success:
            problems.append(("not_success", ei, run.outcome.detail))
            continue
        if run.cls != "complete":
            k = known_c18(case.tool, case.opts, case.dims, run)
            if k:
                known = k
            else:
                problems.append((run.cls, ei, run.info))
        elif dims != tuple(case.dims) and (case.alt_dims is None or dims != tuple(case.alt_dims)):
            problems.append(("wrong_dimensions", ei, {"got": dims, "want": case.dims}))
        if ei == 0:
            base_out = run.out
        elif run.out != base_out:
            problems.append(("stream_divergence", ei,
                             {"len": len(run.out or b""), "base_len": len(base_out or b"")}))
    ss = strip_skip(case)
    if ss is not None and base_out is not None:
        opts2, data2 = ss
        run = simulate(case.tool, opts2, data2, Env())
        recs.append({"env": "skip-stripped", "cls": run.cls, "success": run.success,
                     "steps": run.steps, "digest": run.digest(), "raw_reads": 0,
                     "raw_writes": 0, "events": run.events})
        if not run.success or run.out != base_out:
            problems.append(("skip_divergence", -1, {"success": run.success,
                                                     "len": len(run.out or b""),
                                                     "base_len": len(base_out)}))
    return problems, recs, known


def c18_one(seed, index):
    case, envs = c18_case(seed, index)
    problems, recs, known = c18_check_case(case, envs)
    return {
        "i": index, "fmt": case.fmt, "tool": case.tool, "opts": case.opts,
        "dims": list(case.dims), "len": len(case.data), "runs": recs,
        "problems": [(p[0], p[1]) for p in problems], "known": known,
        "case_digest": digest(case.tool, case.opts, case.data)[:16],
        "fixture": "fixture" in case.params,
    }


def c18_chunk(arg):
    seed, a, b = arg
    warm()
    return [c18_one(seed, i) for i in range(a, b)]


def plain_case(fmt, w, r, s, mode="", use_r=True):
    """Deterministic HRS/MAX file with a counting payload, for shrinking and sweeps."""
    if fmt == "hrs":
        rowb = (w + 1) // 2
        data = bytes(range(s)) if s < 256 else bytes(s)
        data += bytes((i * 5 + 1) & 63 for i in range(16))
        data += bytes(((i * 37 + 11) & 255) for i in range(rowb * r))
        opts = ["-w", str(w), "-r", str(r)] + (["-s", str(s)] if s else [])
        return formats.Case("hrs", opts, data, [], (w, r), {"plain": True, "w": w, "r": r, "s": s},
                            skip=s)
    rowb = (w + 7) // 8
    size = w * r // 8
    if size == 0 or 8 * size // w != r:
        use_r = True
    data = bytes((i * 3 + 7) & 255 for i in range(s))
    data += bytes([0, (size >> 8) & 255, size & 255, 0x0E, 0x00])
    data += bytes(((i * 37 + 11) & 255) for i in range(rowb * r))
    data += bytes([0xFF, 0, 0, 0x0E, 0])
    opts = ([mode] if mode else []) + ["-w", str(w)] + (["-r", str(r)] if use_r else []) + \
        (["-s", str(s)] if s else [])
    return formats.Case("max", opts, data, [], (w, r), {"plain": True, "w": w, "r": r, "s": s},
                        skip=s)


def c18_sweep_chunk(arg):
    """Exhaustive part of thorough: every width 1..64 x rows {1,2,3} and every skip 0..32."""
    fmt, widths = arg
    warm()
    recs = []
    for w in widths:
        for r in (1, 2, 3):
            for s in ((0,) if r != 2 else tuple(range(0, 33))):
                for mode in (("",) if fmt == "hrs" else ("", "-br", "-s10")):
                    if fmt == "max" and mode and s:
                        continue
                    case = plain_case(fmt, w, r, s, mode, use_r=(r != 3))
                    envs = [Env(), Env("dash", "dash", "tiny", "tiny", w * 131 + s, r)]
                    problems, rr, known = c18_check_case(case, envs)
                    recs.append({"fmt": fmt, "w": w, "r": r, "s": s, "mode": mode,
                                 "problems": [(p[0], p[1]) for p in problems], "known": known,
                                 "opts": case.opts, "nruns": len(rr)})
    return recs


def c18_minimise(arg):
    seed, index = arg
    warm()
    case, envs = c18_case(seed, index)
    problems, recs, known = c18_check_case(case, envs)
    if not problems:
        raise HarnessFailure("case %d did not reproduce in the minimiser" % index)
    cls, ei, detail = problems[0]
    tries = [0]

    def has(c, es):
        tries[0] += 1
        ps, _, _ = c18_check_case(c, es)
        return any(p[0] == cls for p in ps)

    # 1. the smallest environment set
    if ei > 0:
        es = [envs[0], envs[ei]]
        if has(case, es):
            envs = es
            for simp in (Env(envs[1].in_kind, envs[1].out_kind, "one", "one", 1, 1),
                         Env(envs[1].in_kind, "path", envs[1].in_chunk, "whole", envs[1].in_seed, 0),
                         Env("path", envs[1].out_kind, "whole", envs[1].out_chunk, 0, envs[1].out_seed)):
                if env_valid(case.tool, simp) and has(case, [envs[0], simp]):
                    envs = [envs[0], simp]
                    break
    elif has(case, envs[:1]):
        envs = envs[:1]
    # 2. smaller geometry for the option-driven formats
    if case.fmt in ("hrs", "max") and not case.params.get("fixture"):
        w, r = case.dims
        s = case.skip
        mode = case.params.get("mode", "")
        best = None
        for w2 in sorted(set([w] + [x for x in (1, 2, 3, 4, 7, 8, 9, 12, 16) if x < w and x % 2 == w % 2])):
            for r2 in sorted(set([1, 2, r])):
                for s2 in sorted(set([0, 1, s])):
                    if r2 > r or s2 > s or (w2, r2, s2) == (w, r, s):
                        continue
                    c2 = plain_case(case.fmt, w2, r2, s2, mode, use_r=case.params.get("use_r", True))
                    if has(c2, envs):
                        best = c2
                        break
                if best:
                    break
            if best:
                break
        if best is not None:
            case = best
    problems, recs, known = c18_check_case(case, envs)
    cls2 = [p for p in problems if p[0] == cls]
    doc = {
        "kind": "decoder-faultfree-case", "seed": seed, "index": index, "tool": case.tool,
        "opts": case.opts, "input_b64": b64(case.data), "dims": list(case.dims),
        "alt_dims": list(case.alt_dims) if case.alt_dims else None,
        "envs": [e.to_json() for e in envs], "fmt": case.fmt, "skip": case.skip,
        "expect": {"class": cls, "detail": repr(cls2[0][2]) if cls2 else "",
                   "digests": [r["digest"] for r in recs]},
        "minimiser_runs": tries[0],
    }
    path = write_replay("C18", "%d-%d" % (seed, index), doc)
    return {"index": index, "sig": [case.tool, cls], "replay": path,
            "digests": doc["expect"]["digests"]}


def c18_replay(doc):
    warm()
    case = formats.Case(doc["fmt"], doc["opts"], unb64(doc["input_b64"]), [], tuple(doc["dims"]),
                        {}, doc.get("skip", 0),
                        tuple(doc["alt_dims"]) if doc.get("alt_dims") else None)
    envs = [Env.from_json(e) for e in doc["envs"]]
    return c18_check_case(case, envs)
