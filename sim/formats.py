"""Reference *encoders* for the image formats the decoders read (DESIGN.md appendix A).

Every encoder returns the file bytes together with a structure map: a list of
(offset, kind) pairs naming the bytes that carry structure (magic, size fields,
palette, flags, title, control/count bytes, row and page starts, trailer).  Faults
are placed preferentially on those offsets, and the `boundary` chunk schedule cuts
pipe reads exactly there.

Only unambiguously well-formed layouts are produced (the choices marked with a star
in the design): NUL-terminated titles, zero-terminated RLE with exact totals,
lines = 192, palette bytes <= 63, composite palette bytes < 25.
"""
import os

FORMATS = ("hrs", "max", "art", "pix", "mge", "rat", "cm3", "vef")
TOOL_OF = {"hrs": "hrstoppm", "max": "maxtoppm", "art": "maxtoppm", "pix": "pixtopgm",
           "mge": "mgetoppm", "rat": "rattoppm", "cm3": "cm3toppm", "vef": "veftopng"}
# which std streams each tool accepts
STDIN_OK = {"hrstoppm", "maxtoppm", "mgetoppm", "cm3toppm", "rattoppm"}
STDOUT_OK = {"hrstoppm", "maxtoppm", "mgetoppm", "cm3toppm", "rattoppm", "pixtopgm"}
MAX_MODES = ("", "-br", "-rb", "-br2", "-rb2", "-br3", "-rb3", "-s10", "-s11")


class Case:
    __slots__ = ("fmt", "tool", "opts", "data", "smap", "dims", "alt_dims", "params", "skip",
                 "channels")

    def __init__(self, fmt, opts, data, smap, dims, params, skip=0, alt_dims=None):
        self.fmt = fmt
        self.tool = TOOL_OF[fmt]
        self.opts = list(opts)
        self.data = bytes(data)
        self.smap = smap
        self.dims = dims
        self.alt_dims = alt_dims
        self.params = params
        self.skip = skip
        self.channels = 1 if fmt == "pix" else 3

    def offsets(self, kinds=None):
        return [o for o, k in self.smap if kinds is None or k in kinds]

    def describe(self):
        return {"fmt": self.fmt, "tool": self.tool, "opts": self.opts, "len": len(self.data),
                "dims": list(self.dims), "params": self.params}


def margins(rng, pix, line):
    """Black (colour 0) margins as real pictures have them: whole lines at the top and/or the
    bottom; sometimes a sentinel as the very last byte."""
    pix = bytearray(pix)
    c = rng.random()
    if c < 0.25:
        m = rng.choice((1, 8, 8, 16)) * line
        if rng.random() < 0.7:
            pix[:m] = bytes(min(m, len(pix)))
        if rng.random() < 0.5:
            pix[max(0, len(pix) - m):] = bytes(min(m, len(pix)))
    if pix and rng.random() < 0.15:
        pix[-1] = rng.choice((0x1A, 0x1A, 0x00, 0x0A))
    return bytes(pix)


def lookalike(rng, data, start, total_candidates):
    """With a small probability make the first bytes after `start` look like a LOADM preamble
    (00, length hi, length lo, addr hi, addr lo) whose length matches one of the candidates."""
    if rng.random() < 0.04 and len(data) >= start + 5:
        n = rng.choice(total_candidates) & 0xFFFF
        data = bytearray(data)
        data[start:start + 5] = bytes([0, n >> 8, n & 255, 0x0E, 0x00])
    return bytes(data)


def _pixels(rng, n, style=None, line=160):
    """n payload bytes: runs, noise, or a mixture (so that compressors have work)."""
    style = style or rng.choice(("runs", "noise", "noise", "mixed", "mixed", "flat", "sentinel", "rows"))
    out = bytearray()
    if style == "rows":
        # horizontal bands: every `line`-byte row is one or two flat stretches, so that run
        # and record boundaries of the compressors coincide with row starts
        body = bytearray()
        while len(body) < n:
            if line < 2 or rng.random() < 0.7:
                body += bytes([rng.getrandbits(8)]) * line
            else:
                k = rng.randrange(1, line)
                body += bytes([rng.getrandbits(8)]) * k + bytes([rng.getrandbits(8)]) * (line - k)
        return bytes(body[:n])
    if style == "sentinel":
        # bytes that text-mode, strip/split or sentinel-terminated loops treat specially
        sent = (0x00, 0x0A, 0x0D, 0x1A, 0x20, 0xFF, 0x80)
        body = bytearray(rng.choice(sent) if rng.random() < 0.7 else rng.getrandbits(8) for _ in range(n))
        if n:
            body[-1] = rng.choice(sent)
            body[0] = rng.choice(sent)
        for k in range(rng.randint(0, 3)):           # whole stretches of one sentinel
            a = rng.randrange(n) if n else 0
            b = min(n, a + rng.choice((8, 40, 80, 160)))
            body[a:b] = bytes([rng.choice((0x00, 0xFF, 0x0A))]) * (b - a)
        return bytes(body)
    if style == "flat":
        return bytes([rng.randrange(256)]) * n
    if style == "noise":
        return bytes(rng.getrandbits(8) for _ in range(n))
    while len(out) < n:
        if style == "runs" or rng.random() < 0.6:
            out += bytes([rng.randrange(256)]) * rng.choice((1, 2, 3, 5, 17, 80, 160, 300, 700))
        else:
            out += bytes(rng.getrandbits(8) for _ in range(rng.randint(1, 40)))
    return bytes(out[:n])


def _palette(rng, hi=63):
    return bytes(rng.randint(0, hi) for _ in range(16))


# ------------------------------------------------------------------------------ HRS
def gen_hrs(rng, small=True, odd_ok=False, with_opts=True):
    if not with_opts:
        w, r, s = 320, 192, 0
        opts = []
    else:
        if small:
            w = rng.choice((2, 4, 6, 8, 16, 32, 64, rng.randrange(2, 130, 2)))
            r = rng.choice((1, 2, 3, 8, rng.randint(1, 40)))
        else:
            w = rng.choice((320, 160, 640, rng.randrange(2, 400, 2)))
            r = rng.choice((192, 97, 200, rng.randint(1, 200)))
        if rng.random() < 0.08:
            # rows and whole images around the io buffer sizes (8 KiB rows, 64 KiB images)
            w = rng.choice((2730, 2732, 4096, 5462, 8192, 2 * rng.randint(1300, 6000)))
            r = rng.choice((1, 2, 3, 5))
            if rng.random() < 0.2:
                w, r = rng.choice((131072, 131074, 140000)), rng.choice((1, 2))   # rows beyond 64 KiB
        if odd_ok and rng.random() < 0.35:
            w = max(1, w - 1)
        s = rng.choice((0, 0, 1, 7, 16, rng.randint(0, 64)))
        if rng.random() < 0.02:
            s = rng.choice((65536, 65537, 70000, 100000))    # a skip longer than one 64 KiB block
        opts = ["-w", str(w), "-r", str(r)]
        if s or rng.random() < 0.2:
            opts += ["-s", str(s)]
    smap = []
    data = bytearray(rng.getrandbits(8) for _ in range(s))
    if s:
        smap.append((0, "skip"))
    smap += [(len(data) + i, "pal") for i in range(16)]
    # palette bytes: the decoder ignores bits 6-7, so any byte is well-formed
    data += bytes(rng.getrandbits(8) for _ in range(16))
    rowb = (w + 1) // 2
    pstart = len(data)
    for y in range(r):
        smap.append((pstart + y * rowb, "row"))
    data += margins(rng, _pixels(rng, rowb * r, None, line=max(1, rowb)), max(1, rowb))
    # a palette that happens to look like a LOADM preamble for this very file
    data = bytearray(lookalike(rng, data, s, (16 + (w // 2) * r, len(data) - s, len(data) - s - 5, (w // 2) * r)))
    return Case("hrs", opts, data, smap, (w, r), {"w": w, "r": r, "s": s}, skip=s)


# ------------------------------------------------------------------------------ MAX / ART
def gen_max(rng, small=True, w8_only=True, with_opts=True, geometry=None):
    mode = rng.choice(MAX_MODES)
    if not with_opts:
        w, rows, s, use_r, ign = 256, 192, 0, False, False
    else:
        if small:
            w = 8 * rng.choice((1, 2, 3, 4, 8, rng.randint(1, 16)))
            rows = rng.choice((1, 2, 3, 8, rng.randint(1, 24)))
        else:
            w = rng.choice((256, 128, 512, 8 * rng.randint(1, 64)))
            rows = rng.choice((192, 96, rng.randint(1, 200)))
        if rng.random() < 0.08:
            w = 8 * rng.choice((342, 512, 1024, rng.randint(300, 1400)))
            rows = rng.choice((1, 2, 3, 5))
        elif rng.random() < 0.025:
            # length field at and beyond the 15-bit / 16-bit marks (a whole 32-64 KiB SAVEM)
            w = rng.choice((256, 512, 1024))
            rows = (rng.choice((32760, 32768, 40000, 65528)) * 8) // w
        if not w8_only and rng.random() < 0.35:
            w = max(1, w - rng.randint(1, 7))
        s = rng.choice((0, 0, 0, 5, 7, rng.randint(0, 40)))
        if rng.random() < 0.02:
            s = rng.choice((65536, 65537, 70000, 100000))
        use_r = rng.random() < 0.4
        ign = rng.random() < 0.25
    if geometry is not None:
        # a width and a row count given by the caller, reachable only with -w and -r
        w, rows = geometry
        use_r = True
    rowb = (w + 7) // 8
    # the length field must satisfy W*rows//8 == size so that the header is accepted
    size = w * rows // 8
    if not use_r and (size == 0 or 8 * size // w != rows):
        use_r = True
    opts = [mode] if mode else []
    if with_opts:
        opts += ["-w", str(w)]
        if use_r:
            opts += ["-r", str(rows)]
        if s:
            opts += ["-s", str(s)]
        if ign:
            opts += ["-i"]
    smap = []
    data = bytearray(rng.getrandbits(8) for _ in range(s))
    if s:
        smap.append((0, "skip"))
    h = len(data)
    fsize = size if not use_r else rng.choice((size & 0xFFFF, rng.randrange(65536)))
    data += bytes([0, (fsize >> 8) & 255, fsize & 255, rng.getrandbits(8), rng.getrandbits(8)])
    smap += [(h, "magic"), (h + 1, "size"), (h + 2, "size"), (h + 3, "flag"), (h + 4, "flag")]
    pstart = len(data)
    for y in range(rows):
        smap.append((pstart + y * rowb, "row"))
    data += margins(rng, _pixels(rng, rowb * rows, None, line=max(1, rowb)), max(1, rowb))
    smap.append((len(data), "trailer"))
    data += bytes([0xFF, 0, 0, rng.getrandbits(8), rng.getrandbits(8)])
    return Case("max", opts, data, smap, (w, rows),
                {"w": w, "rows": rows, "s": s, "mode": mode, "use_r": use_r, "ignore": ign,
                 "size_field": fsize}, skip=s)


def gen_art(rng, small=True, with_opts=True):
    mode = rng.choice(MAX_MODES)
    cb = rng.choice((1, 2, 3, 6)) if small else rng.randint(1, 40)
    rows = rng.choice((1, 2, 5, 25)) if small else rng.randint(1, 255)
    if rng.random() < 0.1:
        # header bytes at the byte/sign boundaries: very wide or very tall art
        cb, rows = rng.choice(((127, 2), (128, 1), (255, 1), (1, 255), (2, 128), (33, 193),
                               (5, 0), (0, 5), (0, 0)))      # empty art: no rows or no columns
    s = rng.choice((0, 0, 3, rng.randint(0, 20))) if with_opts else 0
    opts = ([mode] if mode else []) + ["-newsroom"]
    if s:
        opts += ["-s", str(s)]
    if with_opts and rng.random() < 0.3:   # -w / -r are overridden by the Newsroom header
        opts += ["-w", str(8 * rng.randint(1, 40))]
    if with_opts and rng.random() < 0.2:
        opts += ["-r", str(rng.randint(1, 100))]
    data = bytearray(rng.getrandbits(8) for _ in range(s))
    smap = [(0, "skip")] if s else []
    smap += [(len(data), "size"), (len(data) + 1, "size")]
    data += bytes([cb, rows])
    pstart = len(data)
    for y in range(rows):
        smap.append((pstart + y * cb, "row"))
    data += margins(rng, _pixels(rng, cb * rows, None, line=cb), cb)
    return Case("art", opts, data, smap, (cb * 8, rows),
                {"cols_bytes": cb, "rows": rows, "s": s, "mode": mode}, skip=s)


# ------------------------------------------------------------------------------ PIX
def gen_pix(rng, small=True):
    k = rng.choice((1, 2, 3, 4, 8, 16)) if small else rng.choice((64, 32, rng.randint(1, 64)))
    if rng.random() < 0.15:
        # sides at and around powers of two and the 64 KiB mark
        k = rng.choice((127, 128, 128, 129, 181, 64, 256))
    n = 2 * k * k
    data = _pixels(rng, n)
    data = lookalike(rng, margins(rng, data, max(1, k)), 0, (n, n - 5, 2 * k * k))
    smap = [(y * k, "row") for y in range(2 * k)]
    return Case("pix", [], data, smap, (2 * k, 2 * k), {"k": k})


# ------------------------------------------------------------------------------ MGE
def mge_header(rng, raw, rgb):
    pal = _palette(rng) if rgb else bytes(rng.randint(0, 63) for _ in range(16))
    tl = rng.choice((0, 1, 29, rng.randint(0, 29)))
    alphabet = rng.choice((b"ABCDEFGHIJ klmnop0123", b"   ", b"A\n\r\t \x1a", bytes(range(0x80, 0x100)) + b"\xe9 ",
                           b"ABCDEFGHIJ klmnop0123"))
    title = bytes(rng.choice(alphabet) for _ in range(tl))
    title = title + b"\0" + bytes(rng.getrandbits(8) for _ in range(29 - tl))
    hdr = bytes([0]) + pal + bytes([0 if rgb else rng.randint(1, 255)]) + \
        bytes([rng.randint(1, 255) if raw else 0]) + title + \
        bytes([rng.getrandbits(8), rng.getrandbits(8)])
    assert len(hdr) == 51
    smap = [(0, "magic")] + [(1 + i, "pal") for i in range(16)] + [(17, "flag"), (18, "flag")] + \
        [(19 + i, "title") for i in range(30)] + [(49, "flag"), (50, "flag")]
    return hdr, smap


def mge_rle(rng, pix):
    """One of the many valid run-length encodings of pix (runs split at random)."""
    out = bytearray()
    ctrl = []
    i, n = 0, len(pix)
    split = rng.random()
    while i < n:
        j = i
        while j < n and pix[j] == pix[i] and j - i < 255:
            j += 1
        run = j - i
        if run > 1 and rng.random() < split * 0.5:
            run = rng.randint(1, run)
        ctrl.append(len(out))
        out += bytes([run, pix[i]])
        i += run
    ctrl.append(len(out))
    out.append(0)
    return bytes(out), ctrl


def gen_mge(rng, small=True):
    raw = rng.random() < 0.4
    rgb = rng.random() < 0.6
    hdr, smap = mge_header(rng, raw, rgb)
    pix = margins(rng, _pixels(rng, 32000, rng.choice(("runs", "flat", "mixed", "rows")) if not raw else None),
                  160)
    if raw:
        body = pix
        smap += [(51 + 160 * y, "row") for y in range(0, 200, 8)]
    else:
        body, ctrl = mge_rle(rng, pix)
        smap += [(51 + c, "ctrl") for c in ctrl]
    data = hdr + body
    junk = rng.choice((0, 0, 1, 5))
    smap.append((len(data) - (0 if raw else 1), "trailer"))
    data += bytes(rng.getrandbits(8) for _ in range(junk))
    return Case("mge", [], data, smap, (320, 200), {"raw": raw, "rgb": rgb, "junk": junk})


# ------------------------------------------------------------------------------ RAT
def rat_stream(rng, pix, esc, escaped=0.03):
    """`escaped`: share of the elements that could be literals but are written as a triple of
    count 1 all the same (legal: a triple is always accepted; 1.0 is the longest stream there is)."""
    out = bytearray()
    ctrl = []
    i, n = 0, len(pix)
    split = rng.random()
    while i < n:
        j = i
        while j < n and pix[j] == pix[i] and j - i < 255:
            j += 1
        run = j - i
        if escaped > 0.03:
            run = 1
        elif run > 1 and rng.random() < split * 0.5:
            run = rng.randint(1, run)
        if pix[i] == esc or run > 2 or (run > 1 and rng.random() < 0.5) or rng.random() < escaped:
            ctrl.append(len(out))
            out += bytes([esc, run, pix[i]])
            i += run
        else:
            out.append(pix[i])
            i += 1
    return bytes(out), ctrl


def gen_rat(rng, small=True):
    esc = rng.getrandbits(8)
    pix = margins(rng, _pixels(rng, 199 * 160, rng.choice(("runs", "flat", "mixed", "mixed", "rows"))), 160)
    if rng.random() < 0.2:
        # an escape byte that is also a frequent pixel value, or 0x00 / 0xFF
        esc = rng.choice((0, 0xFF, pix[0], pix[len(pix) // 2], pix[-1]))
    body, ctrl = rat_stream(rng, pix, esc)
    hdr = bytes([esc, rng.choice((1, 255, esc or 1, rng.randint(1, 255))), rng.getrandbits(8)]) + _palette(rng)
    smap = [(0, "flag"), (1, "flag"), (2, "flag")] + [(3 + i, "pal") for i in range(16)]
    smap += [(19 + c, "ctrl") for c in ctrl] + [(19 + c + 1, "ctrl") for c in ctrl]
    data = hdr + body
    junk = rng.choice((0, 0, 0, 3))
    smap.append((len(data) - 1, "trailer"))
    data += bytes(rng.getrandbits(8) for _ in range(junk))
    return Case("rat", [], data, smap, (320, 199), {"esc": esc, "junk": junk})


def gen_longest(rng):
    """The longest legal encodings: streams no encoder that merges runs would write, picture
    data beyond what a 16-bit length field can announce.  A decoder must not assume a bound."""
    k = rng.randrange(4)
    if k == 0:
        # MAX picture data beyond 64 KiB: only -r reaches it
        w, nbytes = rng.choice(((256, 65536), (256, 65568), (512, 65600), (1024, 66560), (8, 65540),
                                (2048, 76800), (256, 131104)))
        return gen_max(rng, geometry=(w, nbytes // (w // 8)))
    if k == 1:
        # RAT: most or all elements written as triples of count 1 (up to 3 bytes per picture byte)
        esc = rng.getrandbits(8)
        pix = margins(rng, _pixels(rng, 199 * 160, rng.choice(("noise", "mixed"))), 160)
        body, ctrl = rat_stream(rng, pix, esc, escaped=rng.choice((0.55, 0.7, 1.0, 1.0)))
        hdr = bytes([esc, rng.randint(1, 255), rng.getrandbits(8)]) + _palette(rng)
        smap = [(0, "flag"), (1, "flag"), (2, "flag")] + [(3 + i, "pal") for i in range(16)]
        smap += [(19 + c, "ctrl") for c in ctrl] + [(19 + c + 1, "ctrl") for c in ctrl]
        smap.append((19 + len(body) - 1, "trailer"))
        return Case("rat", [], hdr + body, smap, (320, 199), {"esc": esc, "junk": 0, "longest": True})
    if k == 2:
        # MGE: every run of length one (two bytes per picture byte, 64001 bytes of packed data)
        rgb = rng.random() < 0.6
        hdr, smap = mge_header(rng, False, rgb)
        pix = _pixels(rng, 32000, "noise")
        body = bytearray()
        for b in pix:
            body += bytes((1, b))
        body.append(0)
        smap += [(51 + c, "ctrl") for c in range(0, 64000, 640)]
        smap.append((51 + len(body) - 1, "trailer"))
        return Case("mge", [], hdr + bytes(body), smap, (320, 200),
                    {"raw": False, "rgb": rgb, "junk": 0, "longest": True})
    # MAX picture data just below the 64 KiB mark
    w = rng.choice((8, 256, 520))
    return gen_max(rng, geometry=(w, 65535 // (w // 8)))


# ------------------------------------------------------------------------------ CM3
def cm3_encode_line(rng, want, linbuf, force_raw=False):
    """Encode one 160-byte line given the decoder's line buffer (mutated in place)."""
    if force_raw:
        c = rng.randint(128, 255)
        linbuf[:] = want
        return bytes([c]) + bytes(want), True
    flags1 = []
    flags2 = []
    lits = []
    order = []   # literal bytes in the order the decoder pulls them
    lazy = rng.random() < 0.3
    for x in range(160):
        a = want[x]
        prev = linbuf[(x - 1) % 160]
        if a == prev and not (lazy and rng.random() < 0.1):
            flags1.append(0)
        else:
            flags1.append(1)
            if a == linbuf[x] and not (lazy and rng.random() < 0.1):
                flags2.append(0)
            else:
                flags2.append(1)
                order.append(a)
        linbuf[x] = a
    c = (len(flags2) + 7) // 8
    if c >= 128:
        return None, False
    # spare flag bytes: CoCoMax 3 itself writes one extra byte when the block is used up exactly
    # (all such lines of the shipped clip1.cm3 do), and the decoder reads as many as announced
    k = rng.random()
    if len(flags2) % 8 == 0 and len(flags2) and k < 0.5:
        c += 1
    elif k < 0.08:
        c = min(127, c + rng.choice((1, 2, 5, 20, 100)))
    b1 = bytearray(20)
    for i, f in enumerate(flags1):
        if f:
            b1[i // 8] |= 1 << (7 - i % 8)
    b2 = bytearray(c)
    for i, f in enumerate(flags2):
        if f:
            b2[i // 8] |= 1 << (7 - i % 8)
    return bytes([c]) + bytes(b1) + bytes(b2) + bytes(order), False


def gen_cm3(rng, small=True):
    pages = 2 if rng.random() < 0.35 else 1
    patterns = rng.random() < 0.5
    typ = (0x80 if pages == 2 else 0) | (0 if patterns else 1) | (rng.getrandbits(8) & 0x7E)
    hdr = bytearray([typ]) + _palette(rng) + bytes(rng.getrandbits(8) for _ in range(12))
    assert len(hdr) == 29
    smap = [(0, "magic")] + [(1 + i, "pal") for i in range(16)] + [(17 + i, "flag") for i in range(12)]
    data = bytearray(hdr)
    if patterns:
        smap.append((len(data), "row"))
        data += bytes(rng.getrandbits(8) for _ in range(243))
    linbuf = [0] * 160
    style = rng.choice(("runs", "flat", "mixed", "rows"))
    praw = rng.choice((0.0, 0.1, 0.5, 1.0))
    blank_top = rng.random() < 0.5
    for p in range(pages):
        smap.append((len(data), "page"))
        data.append(192)
        pix = margins(rng, _pixels(rng, 192 * 160, style), 160)
        for y in range(192):
            want = list(pix[y * 160:(y + 1) * 160])
            if y == 0 and blank_top:
                # a blank (colour 0) top line: decoded entirely from the initial line buffer
                want = [0] * 160
                for _ in range(rng.randint(0, 3)):
                    want[rng.randrange(160)] = rng.getrandbits(8)
            # vertical coherence so that "copy from above" is exercised
            if y and rng.random() < 0.4:
                want = list(linbuf)
                for _ in range(rng.randint(0, 6)):
                    want[rng.randrange(160)] = rng.getrandbits(8)
            save = list(linbuf)
            enc, _ = cm3_encode_line(rng, want, linbuf, force_raw=rng.random() < praw)
            if enc is None:
                linbuf[:] = save
                enc, _ = cm3_encode_line(rng, want, linbuf, force_raw=True)
            smap.append((len(data), "ctrl"))
            data += enc
    junk = rng.choice((0, 0, 2))
    smap.append((len(data) - 1, "trailer"))
    data += bytes(rng.getrandbits(8) for _ in range(junk))
    return Case("cm3", [], data, smap, (320, 192 * pages),
                {"pages": pages, "patterns": patterns, "praw": praw, "junk": junk})


def cm3_walk(data: bytes):
    """Independent walk over a (possibly damaged) CM3 stream: the `lines` byte of each
    page as the decoder will meet it, or None if the stream ends/derails first."""
    try:
        pos = 0
        typ = data[0]
        pages = 2 if typ & 0x80 else 1
        pos = 29 + (0 if typ & 1 else 243)
        if pos > len(data):
            return None
        out = []
        for _ in range(pages):
            lines = data[pos]
            pos += 1
            out.append(lines)
            for _ in range(lines):
                c = data[pos]
                pos += 1
                if c >= 128:
                    pos += 160
                    if pos > len(data):
                        return None
                    continue
                b1 = data[pos:pos + 20]
                b2 = data[pos + 20:pos + 20 + c]
                if len(b1) < 20 or len(b2) < c:
                    return None
                pos += 20 + c
                y = 0
                for x in range(160):
                    if (b1[x >> 3] >> (7 - (x & 7))) & 1:
                        if y >= 8 * c:
                            return None
                        if (b2[y >> 3] >> (7 - (y & 7))) & 1:
                            pos += 1
                            if pos > len(data):
                                return None
                        y += 1
        return out
    except IndexError:
        return None


# ------------------------------------------------------------------------------ VEF
VEF_TYPES = {0: (320, 200, 80), 1: (640, 200, 80), 3: (320, 200, 40)}


def vef_squash_record(rng, rec):
    out = bytearray()
    ctrl = []
    i, n = 0, len(rec)
    while i < n:
        j = i
        while j < n and rec[j] == rec[i] and j - i < 127:
            j += 1
        run = j - i
        if run >= 2 and rng.random() < 0.85:
            run = run if rng.random() < 0.8 else rng.randint(1, run)
            ctrl.append(len(out))
            out += bytes([128 + run, rec[i]])
            i += run
        else:
            k = rng.randint(1, min(n - i, 20))
            ctrl.append(len(out))
            out += bytes([k]) + bytes(rec[i:i + k])
            i += k
    assert len(out) <= 255
    return bytes(out), ctrl


def gen_vef(rng, small=True):
    typ = rng.choice((0, 0, 3, 3, 1))
    w, h, rl = VEF_TYPES[typ]
    squashed = rng.random() < 0.6
    pal = _palette(rng)
    hdr = bytes([0x80 if squashed else rng.choice((0, 1, 0x7F))]) + bytes([typ]) + pal
    smap = [(0, "magic"), (1, "magic")] + [(2 + i, "pal") for i in range(16)]
    pix = margins(rng, _pixels(rng, 400 * rl, rng.choice(("runs", "mixed", "mixed", "rows", "flat"))
                               if squashed else None, line=2 * rl), 2 * rl)
    data = bytearray(hdr)
    if squashed:
        for r in range(400):
            enc, ctrl = vef_squash_record(rng, pix[r * rl:(r + 1) * rl])
            smap.append((len(data), "ctrl"))
            base = len(data) + 1
            data.append(len(enc))
            if r % 16 == 0:
                smap += [(base + c, "ctrl") for c in ctrl[:4]]
            data += enc
    else:
        smap += [(18 + rl * r, "row") for r in range(0, 400, 16)]
        data += pix
    smap.append((len(data) - 1, "trailer"))
    alt = (640, 400) if w == 640 else None
    return Case("vef", [], data, smap, (w, h), {"type": typ, "squashed": squashed}, alt_dims=alt)


GEN = {"hrs": gen_hrs, "max": gen_max, "art": gen_art, "pix": gen_pix, "mge": gen_mge,
       "rat": gen_rat, "cm3": gen_cm3, "vef": gen_vef}


# ------------------------------------------------------------------------------ fixtures
def fixtures(repo):
    """Real-world files shipped with the repository's tests (tool, opts, path, dims)."""
    d = os.path.join(repo, "tests", "coco_tests", "fixtures")
    lst = [
        ("hrs", [], "monalisa.hrs", (320, 192)),
        ("hrs", ["-s", "7"], "monalisa_s7.hrs", (320, 192)),
        ("hrs", ["-w", "160"], "monalisa.hrs", (160, 192)),
        ("hrs", ["-r", "97"], "monalisa.hrs", (320, 97)),
        ("max", [], "eye4.max", (256, 192)),
        ("max", ["-br"], "eye4.max", (256, 192)),
        ("max", ["-s10"], "eye4.max", (256, 192)),
        ("max", ["-s", "7"], "eye4_s7.max", (256, 192)),
        ("max", ["-r", "96"], "eye4.max", (256, 96)),
        ("art", ["-newsroom"], "shamrock.art", None),
        ("pix", [], "sue.pix", (128, 128)),
        ("mge", [], "dragon1.mge", (320, 200)),
        ("rat", [], "watrfall.rat", (320, 199)),
        ("cm3", [], "clip1.cm3", (320, 192)),
        ("vef", [], "owlcasl.vef", (640, 200)),
        ("vef", [], "trekies.vef", (320, 200)),
    ]
    out = []
    for fmt, opts, name, dims in lst:
        p = os.path.join(d, name)
        if not os.path.exists(p):
            continue
        with open(p, "rb") as f:
            data = f.read()
        if fmt == "art":
            dims = (data[0] * 8, data[1])
        alt = (640, 400) if fmt == "vef" and dims[0] == 640 else None
        skip = int(opts[opts.index("-s") + 1]) if "-s" in opts else 0
        out.append(Case(fmt, opts, data, [], dims, {"fixture": name}, skip=skip, alt_dims=alt))
    return out
