"""Grammar-directed generator of Color BASIC programs for the C12 history simulator
(DESIGN.md appendix B).  Programs only need to be *parsable*; they are biased towards
constructs whose emission involves a container order or per-process state: several
implicit arrays, several string scalars, mixed DIM lists, many runtime dependencies,
DATA with empty items, jump targets (existing, missing, too large), duplicate handlers.
Refused programs are wanted too: they are the "failed predecessor" faults of a history.
"""

NUM_NAMES = ["A", "B", "C", "D", "E", "F", "I", "J", "K", "N", "X", "Y", "Z", "AA", "AB", "XY",
             "Q1", "Z9", "AL", "ALP", "ALPH", "SC", "SCO", "HI"]
STR_NAMES = ["A$", "B$", "C$", "N$", "S$", "T$", "AA$", "AB$", "Q1$", "NA$", "NAM$", "ZZ$", "K$"]
ARR_NAMES = ["A", "B", "C", "E", "F", "G", "H", "M", "P", "Q", "R", "T", "U", "V", "W", "AR", "BX"]
SARR_NAMES = ["A$", "D$", "G$", "L$", "M$", "P$", "W$", "AR$", "BX$"]


class Gen:
    def __init__(self, rng):
        self.r = rng
        self.lines = []
        self.linenos = []
        self.allow_empty_data = True

    # ---- expressions
    def num(self, depth=0):
        r = self.r
        c = r.random()
        if depth > 2 or c < 0.3:
            return r.choice(("0", "1", "2", "10", "255", "3.5", "&HFF", "100", "7", "&H10", "&HB", "&H100",
                             "16", "11", "256", "1.5E3", "1E5", "2.5E-3", "1234567890.25", "0.123456789012",
                             "123456789012", ".5", "1E+2"))
        if c < 0.55:
            return r.choice(NUM_NAMES)
        if c < 0.65:
            return "%s(%s)" % (r.choice(ARR_NAMES), self.num(depth + 1))
        if c < 0.8:
            return "%s%s%s" % (self.num(depth + 1), r.choice("+-*/"), self.num(depth + 1))
        if c < 0.86:
            return "%s(%s)" % (r.choice(("ABS", "SGN", "SQR", "RND", "PEEK", "INT", "FIX")),
                               self.num(depth + 1))
        if c < 0.9:
            return "%s(%s)" % (r.choice(("LEN", "ASC", "VAL")), self.str(depth + 1))
        if c < 0.93:
            return "JOYSTK(%s)" % r.choice("0123")
        if c < 0.95:
            return "BUTTON(%s)" % r.choice("0123")
        if c < 0.97:
            return "INSTR(1,%s,%s)" % (self.str(depth + 1), self.str(depth + 1))
        if c < 0.985:
            return "POINT(%s,%s)" % (self.num(depth + 1), self.num(depth + 1))
        return "(%s)" % self.num(depth + 1)

    def str(self, depth=0):
        r = self.r
        c = r.random()
        if depth > 2 or c < 0.3:
            return '"%s"' % r.choice(("", "A", "HELLO", "X Y", "12", "CoCo"))
        if c < 0.55:
            return r.choice(STR_NAMES)
        if c < 0.65:
            return "%s(%s)" % (r.choice(SARR_NAMES), self.num(depth + 1))
        if c < 0.72:
            return "%s+%s" % (self.str(depth + 1), self.str(depth + 1))
        if c < 0.78:
            return "LEFT$(%s,%s)" % (self.str(depth + 1), self.num(depth + 1))
        if c < 0.82:
            return "MID$(%s,%s,%s)" % (self.str(depth + 1), self.num(depth + 1), self.num(depth + 1))
        if c < 0.87:
            return "CHR$(%s)" % self.num(depth + 1)
        if c < 0.91:
            return "STR$(%s)" % self.num(depth + 1)
        if c < 0.94:
            return "HEX$(%s)" % self.num(depth + 1)
        if c < 0.97:
            return "STRING$(%s,%s)" % (self.num(depth + 1), self.str(depth + 1))
        return "INKEY$"

    def cond(self):
        r = self.r
        if r.random() < 0.3:
            return "%s%s%s" % (self.str(1), r.choice(("=", "<>", "<", ">")), self.str(1))
        c = "%s%s%s" % (self.num(1), r.choice(("=", "<>", "<", ">", "<=", ">=")), self.num(1))
        if r.random() < 0.2:
            c += r.choice((" AND ", " OR ")) + "%s%s%s" % (self.num(1), r.choice(("=", "<")), self.num(1))
        return c

    def target(self, bad=0.0):
        r = self.r
        if r.random() < bad:
            return r.choice((str(r.randint(20000, 30000)), "32700", "40000", "65000"))
        return str(r.choice(self.linenos)) if self.linenos else "10"

    # ---- statements
    def device(self):
        r = self.r
        n = self.num
        return r.choice((
            lambda: "CLS %s" % r.choice(("", "0", "3")),
            lambda: "SOUND %s,%s" % (n(1), n(1)),
            lambda: "PLAY %s" % self.str(1),
            lambda: "HSCREEN %s" % r.choice("01234"),
            lambda: "HCLS %s" % r.choice(("", "1")),
            lambda: "HCOLOR %s,%s" % (n(1), n(1)),
            lambda: "HLINE(%s,%s)-(%s,%s),PSET%s" % (n(1), n(1), n(1), n(1), r.choice(("", ",B", ",BF"))),
            lambda: "HCIRCLE(%s,%s),%s" % (n(1), n(1), n(1)),
            # every optional-argument form of the circle family: colour given or left empty,
            # ratio (ellipse), start/end (arc)
            lambda: "HCIRCLE(%s,%s),%s,%s" % (n(1), n(1), n(1), n(1)),
            lambda: "HCIRCLE(%s,%s),%s,%s,%s" % (n(1), n(1), n(1), r.choice(("", n(1))), n(1)),
            lambda: "HCIRCLE(%s,%s),%s,%s,%s,%s,%s" % (n(1), n(1), n(1), r.choice(("", n(1))), n(1), n(1), n(1)),
            lambda: "HLINE-(%s,%s),%s%s" % (n(1), n(1), r.choice(("PSET", "PRESET")), r.choice(("", ",B", ",BF"))),
            lambda: "HPAINT(%s,%s)%s" % (n(1), n(1), r.choice(("", ",%s" % n(1), ",%s,%s" % (n(1), n(1))))),
            lambda: "HSET(%s,%s,%s)" % (n(1), n(1), n(1)),
            lambda: "HCOLOR %s" % n(1),
            lambda: "HSCREEN",
            lambda: "HPRINT(%s,%s),%s" % (n(1), n(1), n(1)),
            lambda: r.choice(("RGB", "CMP")),
            lambda: "POKE %s,%s" % (r.choice(("65494", "65495", "65496", "65497", "&HFFD6", "&HFFD7", "&HFFD8",
                                               "&HFFD9", "1024", "65280")), r.choice(("0", n(1)))),
            lambda: "CLEAR %s" % r.choice(("", "200", "1000")),
            lambda: "HPRINT(%s,%s),%s" % (n(1), n(1), self.str(1)),
            lambda: "HSET(%s,%s)" % (n(1), n(1)),
            lambda: "HRESET(%s,%s)" % (n(1), n(1)),
            lambda: "HBUFF %s,%s" % (r.choice("123"), r.choice(("100", "2000"))),
            lambda: "HGET(%s,%s)-(%s,%s),%s" % (n(1), n(1), n(1), n(1), r.choice("123")),
            lambda: "HPUT(%s,%s)-(%s,%s),%s,%s" % (n(1), n(1), n(1), n(1), r.choice("123"),
                                                   r.choice(("PSET", "AND", "OR", "XOR"))),
            lambda: "HPAINT(%s,%s),%s,%s" % (n(1), n(1), n(1), n(1)),
            lambda: "HDRAW %s" % self.str(1),
            lambda: "PALETTE %s,%s" % (n(1), n(1)),
            lambda: "PALETTE %s" % r.choice(("RGB", "CMP")),
            lambda: "WIDTH %s" % r.choice(("32", "40", "80")),
            lambda: "LOCATE %s,%s" % (n(1), n(1)),
            lambda: "ATTR %s,%s%s" % (n(1), n(1), r.choice(("", ",B", ",U", ",B,U"))),
            lambda: "POKE %s,%s" % (n(1), n(1)),
            lambda: "SET(%s,%s,%s)" % (n(1), n(1), n(1)),
            lambda: "RESET(%s,%s)" % (n(1), n(1)),
        ))()

    def statement(self, flavour):
        r = self.r
        c = r.random()
        if flavour == "arrays" and c < 0.5:
            if r.random() < 0.6:
                return "%s(%s)=%s" % (r.choice(ARR_NAMES), self.num(1), self.num())
            return "%s(%s)=%s" % (r.choice(SARR_NAMES), self.num(1), self.str())
        if flavour == "strings" and c < 0.5:
            return "%s=%s" % (r.choice(STR_NAMES), self.str())
        if flavour == "devices" and c < 0.6:
            return self.device()
        if flavour == "jumps" and c < 0.5:
            k = r.random()
            if k < 0.4:
                return "%s %s" % (r.choice(("GOTO", "GOSUB")), self.target())
            if k < 0.7:
                return "ON %s %s %s" % (self.num(1), r.choice(("GOTO", "GOSUB")),
                                         ",".join(self.target() for _ in range(r.randint(1, 4))))
            return "IF %s THEN %s" % (self.cond(), self.target())
        c = r.random()
        if c < 0.03:
            # rarely used statement and expression forms of the grammar
            return r.choice((
                lambda: "LET %s=%s" % (r.choice(NUM_NAMES), self.num(1)),
                lambda: "LET %s=%s" % (r.choice(STR_NAMES), self.str(1)),
                lambda: "?%s" % self.str(1),
                lambda: "?@%s,%s;%s" % (self.num(1), self.str(1), self.num(1)),
                lambda: "PRINT@%s" % self.num(1),
                lambda: "PRINT TAB(%s);%s,%s;" % (self.num(1), self.str(1), self.num(1)),
                lambda: "PRINT %s;%s,,%s" % (self.num(1), self.num(1), self.str(1)),
                lambda: "%s=VARPTR(%s)" % (r.choice(NUM_NAMES), r.choice(NUM_NAMES + STR_NAMES + ["A(1)", "D$(2)"])),
                lambda: "%s=ERNO" % r.choice(NUM_NAMES),
                lambda: "IF ERNO=%s THEN %s" % (self.num(1), self.simple()),
                lambda: "%s=-%s" % (r.choice(NUM_NAMES), self.num(1)),
                lambda: "%s=NOT %s" % (r.choice(NUM_NAMES), self.num(1)),
                lambda: "%s=%s AND %s OR %s" % (r.choice(NUM_NAMES), self.num(1), self.num(1), self.num(1)),
                lambda: "%s=%s^%s" % (r.choice(NUM_NAMES), self.num(1), self.num(1)),
                lambda: "%s=1 E 2+.5E1" % r.choice(NUM_NAMES),
                lambda: "%s=RIGHT$(%s,%s)+STRING$(%s,%s)" % (r.choice(STR_NAMES), self.str(1), self.num(1),
                                                            self.num(1), self.str(1)),
                lambda: "NEXT",
                lambda: "FOR %s=%s TO %s STEP -%s" % (r.choice(("I", "J")), self.num(1), self.num(1), self.num(1)),
            ))()
        if c < 0.18:
            return "%s=%s" % (r.choice(NUM_NAMES), self.num())
        if c < 0.3:
            return "%s=%s" % (r.choice(STR_NAMES), self.str())
        if c < 0.38:
            return "%s(%s)=%s" % (r.choice(ARR_NAMES), self.num(1), self.num())
        if c < 0.44:
            return "%s(%s)=%s" % (r.choice(SARR_NAMES), self.num(1), self.str())
        if c < 0.56:
            items = []
            for _ in range(r.randint(0, 3)):
                items.append(self.num(1) if r.random() < 0.5 else self.str(1))
            return "PRINT " + r.choice((";", ",")).join(items)
        if c < 0.6:
            return "PRINT@%s,%s" % (self.num(1), self.str(1))
        if c < 0.66:
            return "%sINPUT %s%s" % (r.choice(("", "", "LINE ")) if False else "",
                                     r.choice(("", '"NAME";')),
                                     ",".join(r.choice(NUM_NAMES + STR_NAMES) for _ in range(r.randint(1, 3))))
        if c < 0.72:
            return "IF %s THEN %s ELSE %s" % (self.cond(), self.simple(), self.simple())
        if c < 0.78:
            return "IF %s THEN %s" % (self.cond(), self.simple())
        if c < 0.86:
            return self.device()
        if c < 0.9:
            return r.choice(("RESTORE", "RETURN", "END", "STOP", "TRON", "TROFF", "CLEAR 200",
                             "REM comment, with: stuff", "'quote comment"))
        if c < 0.95:
            return "READ %s" % ",".join(r.choice(NUM_NAMES + STR_NAMES + ["A(1)", "D$(2)"])
                                        for _ in range(r.randint(1, 3)))
        return "%s %s" % (r.choice(("GOTO", "GOSUB")), self.target())

    def simple(self):
        r = self.r
        return r.choice((
            lambda: "%s=%s" % (r.choice(NUM_NAMES), self.num(1)),
            lambda: "%s=%s" % (r.choice(STR_NAMES), self.str(1)),
            lambda: "PRINT %s" % self.str(1),
            lambda: self.target(),
            lambda: "GOSUB %s" % self.target(),
        ))()

    def data_line(self, allow_empty=True):
        r = self.r
        items = []
        for _ in range(r.randint(1, 6)):
            c = r.random()
            if not allow_empty and c < 0.25:
                c = 0.3
            if c < 0.25 and not any(i.startswith("&H") for i in items):
                items.append("")
            elif c < 0.5:
                items.append(r.choice(("0", "1", "2", "7", "10", "255", "3.5", "-1", "-0", "100",
                                       str(r.randint(0, 999)))))
            elif c < 0.6 and "" not in items:
                items.append("&H%X" % r.randint(0, 255))
            elif c < 0.8:
                items.append('"%s"' % r.choice(("A", "B C", "")))
            else:
                items.append(r.choice(("ABC", "X1", "HELLO WORLD")))
        return "DATA " + ",".join(items)

    def dim_line(self):
        r = self.r
        items = []
        for _ in range(r.randint(1, 5)):
            c = r.random()
            if c < 0.35:
                # hex sizes too: &HF declares 16 = &H10 elements, the value an expression may use
                items.append("%s(%s)" % (r.choice(ARR_NAMES), ",".join(
                    str(r.choice((1, 2, 5, 10, "&HF", "&HA", "&HFF", 15, 255)))
                    for _ in range(r.randint(1, 3)))))
            elif c < 0.65:
                items.append("%s(%s)" % (r.choice(SARR_NAMES), ",".join(
                    str(r.choice((1, 2, 5))) for _ in range(r.randint(1, 2)))))
            elif c < 0.9:
                items.append(r.choice(STR_NAMES))
            else:
                items.append(r.choice(NUM_NAMES))
        return "DIM " + ",".join(items)

    # ---- whole program
    def circles_program(self):
        """Graphics statements with every optional-argument form, their arguments often
        containing functions that are hoisted into procedure calls."""
        r = self.r
        f = lambda: r.choice(("INT(R)/2", "JOYSTK(0)/63", "BUTTON(1)", "POINT(1,2)", "VAL(A$)", "3", "R",
                              "INSTR(1,A$,B$)", "10", "X+1"))   # noqa: E731
        forms = (lambda: "HCIRCLE(%s,%s),%s" % (f(), f(), f()),
                 lambda: "HCIRCLE(%s,%s),%s,%s" % (f(), f(), f(), f()),
                 lambda: "HCIRCLE(%s,%s),%s,,%s" % (f(), f(), f(), f()),
                 lambda: "HCIRCLE(%s,%s),%s,%s,%s" % (f(), f(), f(), f(), f()),
                 lambda: "HCIRCLE(%s,%s),%s,,%s,%s,%s" % (f(), f(), f(), f(), f(), f()),
                 lambda: "HCIRCLE(%s,%s),%s,%s,%s,%s,%s" % (f(), f(), f(), f(), f(), f(), f()),
                 lambda: "HLINE(%s,%s)-(%s,%s),PSET" % (f(), f(), f(), f()),
                 lambda: "HLINE-(%s,%s),PRESET,B" % (f(), f()),
                 lambda: "HPAINT(%s,%s),%s" % (f(), f(), f()),
                 lambda: "HSET(%s,%s)" % (f(), f()),
                 lambda: "HPRINT(%s,%s),%s" % (f(), f(), r.choice(('"HI"', "A$", f()))))
        n = r.choice((1, 1, 2, 4))
        return "".join("%d %s\n" % (10 * (i + 1), ":".join(r.choice(forms)() for _ in range(r.choice((1, 1, 2)))))
                       for i in range(n))

    def forest_program(self):
        """Dozens to hundreds of FOR statements that are never closed (indentation levels and
        per-process high-water marks), sometimes followed by a tiny FOR/NEXT one-liner."""
        r = self.r
        n = r.choice((10, 63, 64, 65, 70, 130, 260))
        out = ["%d FOR %s=1 TO 2" % (10 + i, r.choice(("I", "J", "K", "N", "X"))) for i in range(n)]
        return "\n".join(out) + "\n"

    def huge_literal_program(self):
        """A numeric literal of thousands of digits in an expression (never as a line number or
        a DIM size, which the unchanged tool already parses with int())."""
        r = self.r
        return "10 A=%s\n20 PRINT A\n" % (r.choice("123456789") * r.choice((400, 4300, 5000)))

    def deep_program(self):
        """One assignment whose right-hand side is nested far beyond what the bounded
        expression generator reaches (recursion-depth territory of the PEG parser)."""
        r = self.r
        n = r.choice((40, 120, 170, 200, 230, 260, 320))
        kind = r.random()
        if kind < 0.5:
            e = "(" * n + "1" + ")" * n
        elif kind < 0.8:
            e = "ABS(" * n + "X" + ")" * n
        else:
            e = "1" + "+(1" * n + ")" * n
        return "10 A=%s\n" % e

    def wide_program(self):
        """Many more distinct variables, arrays and strings than a screenful of BASIC holds
        (65 to 260): containers whose order shows only beyond some size, batched emission."""
        r = self.r
        names = [a + b for a in "ABCDEGHJKLMPQRSUVWXYZ" for b in "0123456789ABXYZ"
                 if a + b not in ("AS", "GO")]
        r.shuffle(names)
        mix = r.choice(((1, 0, 0, 0), (0, 1, 0, 0), (0, 0, 1, 0), (0, 0, 0, 1), (3, 2, 1, 1), (1, 1, 1, 1),
                        (1, 1, 0, 0), (1, 1, 0, 0)))
        # one kind: just beyond 64 / 128 / 256 of it; several kinds: enough for each to pass 64
        n = r.choice((65, 66, 70, 100, 129, 200, 260)) if sum(mix) <= 2 else r.choice((280, 310))
        forms = []
        for v in names[:n]:
            k = r.choices((0, 1, 2, 3), weights=mix)[0]
            forms.append(("%s=%d" % (v, r.randint(0, 9)), '%s$="%s"' % (v, v.lower()),
                          "%s(%d)=%s" % (v, r.randint(0, 10), r.choice(("1", "RND(5)"))),
                          '%s$(%d)=%s' % (v, r.randint(0, 10), r.choice(('"x"', "INKEY$"))))[k])
        per = r.choice((1, 4, 9))
        out = ["%d %s" % (10 + i, ":".join(forms[a:a + per]))
               for i, a in enumerate(range(0, len(forms), per))]
        return "\n".join(out) + "\n"

    def program(self, flavour=None, refuse=None):
        r = self.r
        if flavour is None and refuse is None:
            c0 = r.random()
            if c0 < 0.05:
                return self.deep_program()
            if c0 < 0.08:
                return self.forest_program()
            if c0 < 0.095:
                return self.huge_literal_program()
            if c0 < 0.12:
                return "10 FOR%s=1TO2:NEXT%s\n" % ((r.choice("IJK"),) * 2)
            if c0 < 0.22:
                return self.circles_program()
        flavour = flavour or r.choice(("arrays", "strings", "devices", "jumps", "data", "mixed", "mixed"))
        # DATA-heavy programs come with and without empty items (an empty item switches on a
        # rewriting pass over every DATA literal of the program)
        self.allow_empty_data = r.random() < 0.5
        nlines = r.choice((1, 2, 3, 5, 8, 12, 20))
        step = r.choice((1, 10, 10, 100))
        start = r.choice((0, 1, 10, 100, 1000))
        self.linenos = [start + i * step for i in range(nlines)]
        out = []
        open_for = []
        for ln in self.linenos:
            parts = []
            k = r.random()
            if k < 0.08 or (flavour == "data" and k < 0.5):
                parts.append(self.data_line(allow_empty=self.allow_empty_data))
            elif k < 0.18:
                parts.append(self.dim_line())
            elif k < 0.26:
                v = r.choice(("I", "J", "K", "N", "X"))
                open_for.append(v)
                parts.append("FOR %s=%s TO %s%s" % (v, self.num(1), self.num(1),
                                                   r.choice(("", "", " STEP 2"))))
                parts.append(self.statement(flavour))
                if r.random() < 0.6:
                    parts.append("NEXT %s" % r.choice(("", open_for.pop())))
                    if open_for and parts[-1] == "NEXT ":
                        open_for.pop()
            else:
                for _ in range(r.choice((1, 1, 2, 3, 4))):
                    parts.append(self.statement(flavour))
            if r.random() < 0.03:
                parts.append('%s="unterminated' % r.choice(STR_NAMES + ["D$(1)"]))   # last statement only
            out.append("%d %s" % (ln, ":".join(parts)))
        while open_for:
            out.append("%d NEXT %s" % (self.linenos[-1] + step * (len(out) - nlines + 1), open_for.pop()))
        last = self.linenos[-1] + step * (len(out) - nlines + 2)
        if refuse == "undefined":
            out.append("%d GOTO %s:GOSUB %s" % (last, self.target(1.0), self.target(1.0)))
        elif refuse == "toolarge":
            out.append("%d PRINT 1" % r.choice((32700, 40000, 65535)))
        elif refuse == "twohandlers":
            which = r.choice(("ERR", "BRK"))
            out.append("%d ON %s GOTO %s:ON %s GOTO %s" % (last, which, self.linenos[0], which,
                                                          self.linenos[-1]))
        elif refuse == "grammar":
            k = r.randrange(len(out))
            out[k] = out[k] + r.choice((" THEN", ":PRINT (", ":A=", ":DIM", ":FOR", ' :A$="x"+'))
        elif refuse is None and r.random() < 0.25:
            out.append("%d ON %s GOTO %s" % (last, r.choice(("ERR", "BRK")), self.linenos[0]))
        sep = r.choice(("\n", "\n", "\r", "\n\n"))
        text = sep.join(out)
        if r.random() < 0.7:
            text += "\n"
        if r.random() < 0.05:
            text = "\n \n" + text
        if r.random() < 0.05:
            text += "\x00"
        return text


def gen_program(rng, flavour=None, refuse=None):
    return Gen(rng).program(flavour, refuse)


def gen_wide_program(rng):
    return Gen(rng).wide_program()


def late_refusals(text):
    """Relatives of an accepted program that are refused only *after* most passes ran: the same
    lines renumbered beyond 32699, and the same lines plus a jump to a line that is not there.
    What such a refusal leaves behind must not reach the next conversion of the accepted text."""
    lines = [x for x in text.replace("\r", "\n").split("\n") if x.strip() and x.strip("\x00")]
    bodies = [x.strip().partition(" ")[2] for x in lines]
    big = "".join("%d %s\n" % (40000 + 10 * i, b) for i, b in enumerate(bodies))
    undefined = "".join(x.strip() + "\n" for x in lines) + "32698 GOTO 32697\n"
    return (("toolarge", big), ("undefined", undefined))


COMMON_MAPS = ({"A$": 10, "D$()": 64}, {"N$": 64, "Q1$": 200, "G$()": 10}, {"ZZ$": 1000})
BOOL_OPTS = ("add_standard_prefix", "add_suffix", "default_width32", "filter_unused_linenum",
             "initialize_vars", "output_dependencies", "skip_procedure_headers")


def gen_options(rng):
    """One option set of coco.b09.compiler.convert (JSON-serialisable)."""
    o = {}
    for k in BOOL_OPTS:
        if rng.random() < 0.5:
            o[k] = rng.random() < 0.5
    if rng.random() < 0.6:
        o["output_dependencies"] = True
    if rng.random() < 0.5:
        o["default_str_storage"] = rng.choice((32, 80, 255, 1, 100))
    if rng.random() < 0.5:
        o["procname"] = rng.choice(("", "prog", "a-b", "Prog_1", "bad name"))
    if rng.random() < 0.2:
        # a few mappings that many calls share (a host that keeps one config object)
        o["string_configs"] = dict(rng.choice(COMMON_MAPS))
    elif rng.random() < 0.3:
        m = {}
        for _ in range(rng.randint(1, 4)):
            n = rng.choice(STR_NAMES + [s + "()" for s in SARR_NAMES])
            if len(n.split("$")[0]) <= 2:
                m[n] = rng.choice((1, 10, 64, 200, 1000))
        if rng.random() < 0.08:
            m["toolong$"] = 5          # pydantic validation failure (a documented refusal)
        o["string_configs"] = m
    return o


def option_class(o):
    """Coarse class of an option set, for the ordered-pair coverage measure."""
    return "s%s/d%d/i%d/c%d" % (o.get("default_str_storage", 32),
                                 1 if o.get("output_dependencies") else 0,
                                 1 if o.get("initialize_vars") else 0,
                                 1 if o.get("string_configs") else 0)
