"""One simulated *tool process* of the C12 history simulator.

Started as a fresh interpreter with the PYTHONHASHSEED the scheduler drew.  Reads a
history (JSON list of ops) on stdin, executes the ops back to back in this one process
and prints one response per op.  Volatile state only: nothing survives the process.
"""
import hashlib
import json
import os
import re
import sys

HERE = os.path.dirname(os.path.dirname(os.path.abspath(__file__)))
sys.path.insert(0, HERE)


def install_process_environment(penv):
    """Per-process environment skew chosen by the scheduler, installed before anything of
    the repository is imported: a simulated clock (own epoch and own tick per reading, so
    both dates and elapsed times differ between processes), time zone, working directory
    and the identity variables of the environment.  Output must not depend on any of it."""
    import datetime as _dt
    import time as _time
    for k, v in penv.get("environ", {}).items():
        os.environ[k] = v
    if "TZ" in penv.get("environ", {}):
        _time.tzset()
    if penv.get("cwd"):
        os.chdir(penv["cwd"])
    if penv.get("cpu_count"):
        os.cpu_count = lambda: penv["cpu_count"]
        if hasattr(os, "sched_getaffinity"):
            os.sched_getaffinity = lambda pid=0: set(range(penv["cpu_count"]))
    state = {"now": float(penv["epoch"]), "tick": float(penv["tick"])}
    real_localtime, real_gmtime, real_strftime = _time.localtime, _time.gmtime, _time.strftime
    real_ctime, real_asctime = _time.ctime, _time.asctime

    def now():
        state["now"] += state["tick"]
        return state["now"]
    _time.time = now
    _time.time_ns = lambda: int(now() * 1e9)
    _time.monotonic = _time.perf_counter = _time.process_time = lambda: now() - float(penv["epoch"])
    _time.monotonic_ns = _time.perf_counter_ns = _time.process_time_ns = \
        lambda: int((now() - float(penv["epoch"])) * 1e9)
    _time.localtime = lambda secs=None: real_localtime(now() if secs is None else secs)
    _time.gmtime = lambda secs=None: real_gmtime(now() if secs is None else secs)
    _time.ctime = lambda secs=None: real_ctime(now() if secs is None else secs)
    _time.asctime = lambda t=None: real_asctime(_time.localtime() if t is None else t)
    _time.strftime = lambda fmt, t=None: real_strftime(fmt, _time.localtime() if t is None else t)
    _time.sleep = lambda secs: state.__setitem__("now", state["now"] + max(0.0, secs))

    class SimDateTime(_dt.datetime):
        @classmethod
        def now(cls, tz=None):
            return cls.fromtimestamp(now(), tz)

        @classmethod
        def utcnow(cls):
            return cls.fromtimestamp(now(), _dt.timezone.utc).replace(tzinfo=None)

        @classmethod
        def today(cls):
            return cls.fromtimestamp(now())

    class SimDate(_dt.date):
        @classmethod
        def today(cls):
            return cls.fromtimestamp(now())
    _dt.datetime = SimDateTime
    _dt.date = SimDate


hist = json.load(sys.stdin)
if hist.get("penv"):
    install_process_environment(hist["penv"])

import sim  # noqa: E402

sim.use_repo()

from sim import deccheck  # noqa: E402
from sim.decsim import Env, simulate  # noqa: E402
from sim.runner import unb64  # noqa: E402
from sim.world import World, run_tool  # noqa: E402


def _sha(b):
    if isinstance(b, str):
        b = b.encode("utf-8", "surrogatepass")
    return hashlib.sha256(b).hexdigest()


_ADDR = re.compile(r"0x[0-9a-fA-F]{6,}")
_ECHO = re.compile(r"input_value=\{[^}]*\}")


def _norm_msg(e):
    """What the user reads on stderr when a program is refused: the exception text, with
    memory addresses (the one legitimately process-dependent thing) blanked."""
    # ... and pydantic's echo of the offending input (the option mapping in the order its keys
    # were listed, which this harness permutes on purpose)
    return _ECHO.sub("input_value={...}", _ADDR.sub("0x?", str(e)))


PERM_SEED = 0
_CONFIGS = {}
TTY = False
_CALLS = [0]


def op_convert(op):
    from coco.b09.compiler import convert
    from coco.b09.configs import CompilerConfigs, StringConfigs
    o = dict(op["opts"])
    sc = o.pop("string_configs", None)
    if sc is not None and len(sc) > 1:
        # the same mapping, its keys listed in the order this process was given
        import random
        keys = sorted(sc)
        random.Random("%d/%d" % (PERM_SEED, _CALLS[0])).shuffle(keys)
        sc = {k: sc[k] for k in keys}
    _CALLS[0] += 1
    try:
        if sc is not None:
            # a long-lived host often keeps ONE config object and passes it to many calls: half
            # of the calls with an equal mapping reuse the object this process built first
            import random
            ck = tuple(sorted(sc.items()))
            reuse = random.Random("%d/%d/cfg" % (PERM_SEED, _CALLS[0])).random() < 0.5
            if reuse and ck in _CONFIGS:
                o["compiler_configs"] = _CONFIGS[ck]
            else:
                o["compiler_configs"] = CompilerConfigs(string_configs=StringConfigs(strname_to_size=sc))
                _CONFIGS.setdefault(ck, o["compiler_configs"])
        out = convert(op["text"], **o)
    except Exception as e:
        return {"r": "REFUSED:%s:%s" % (type(e).__name__, _sha(_norm_msg(e))[:16]),
                "msg": str(e)[:200]}
    return {"r": "OK:" + _sha(out), "len": len(out)}


PLANT = False
PROBED = [0, 0]     # paths looked for in vain, files planted
DECOY = b"string_configs:\n  strname_to_size:\n    A$: 10\n    N$: 5\n    D$(): 64\n"


def op_cli(op):
    """decb_to_b09.start() on files in the simulated file system, or on the std streams.
    In a process whose environment says so, every path below the working directory that the
    tool looked for in vain (none, on the unchanged tree: it opens what argv names and
    nothing else) exists in a second run, and that run's answer is the one reported: a
    file that merely lies in the directory the tool is started from must change nothing."""
    resp, misses = _cli_once(op, ())
    PROBED[0] += len(misses)
    if PLANT and misses:
        resp, _ = _cli_once(op, misses)
        PROBED[1] += len(misses)
    return resp


def _cli_once(op, plant):
    inp = "/simfs/" + op["name"]
    outp = "/simfs/out.b09"
    argv = list(op["flags"])
    use_stdin, use_stdout = bool(op.get("stdin")), bool(op.get("stdout"))
    # the simulated process's working directory mirrors this tool process's (skewed) one
    w = World(stdin_data=op["text"].encode("utf-8") if use_stdin else None,
              vcwd="/simfs/cwd" + os.getcwd().rstrip("/"), tty=TTY)
    with w:
        for path in plant:
            w.fs.put(path, DECOY)
        if not use_stdin:
            w.fs.put(inp, op["text"].encode("utf-8"))
        if op.get("config") is not None:
            cfg = op["config"]
            head, sep, body = cfg.partition("strname_to_size:\n")
            lines = [x for x in body.split("\n") if x.strip()]
            if sep and len(lines) > 1:
                import random
                random.Random("%d/%d/cli" % (PERM_SEED, _CALLS[0])).shuffle(lines)
                cfg = head + sep + "\n".join(lines) + "\n"
            _CALLS[0] += 1
            w.fs.put("/simfs/cfg.yaml", cfg.encode("utf-8"))
            argv += ["-c", "/simfs/cfg.yaml"]
        o = run_tool(w, "decb_to_b09", argv + ["-" if use_stdin else inp, "-" if use_stdout else outp],
                     10 ** 12)
        out = w.stdout_bytes() if use_stdout else w.fs.get(outp)
        misses = [m for m in w.fs.misses if m not in (inp, outp, "/simfs/cfg.yaml")]
    if o.exit != "ok":
        return {"r": "REFUSED:" + str(o.detail)}, misses
    return {"r": "OK:" + _sha(out if out is not None else b"<none>"), "len": len(out or b"")}, misses


def op_decode(op):
    env = Env.from_json(op["env"])
    run = simulate(op["tool"], op["opts"], unb64(op["data"]), env)
    # the property speaks of the bytes written (and of success or failure), nothing else:
    # loop counts and the stream-event log may legitimately differ (threads, buffer sizes)
    out = run.out if run.out is not None else b"<no output>"
    return {"r": ("OK:" if run.success else "FAIL:") + _sha(out if run.success else b""), "cls": run.cls}


OPS = {"convert": op_convert, "cli": op_cli, "decode": op_decode}


def main():
    global PERM_SEED, TTY, PLANT
    PERM_SEED = int((hist.get("penv") or {}).get("perm_seed", 0))
    TTY = bool((hist.get("penv") or {}).get("tty"))
    PLANT = bool((hist.get("penv") or {}).get("plant"))
    from sim import decsim
    decsim.TTY_OF_PROCESS = TTY
    decsim.VCWD_OF_PROCESS = "/simfs/cwd" + os.getcwd().rstrip("/")
    deccheck.warm()
    import coco.b09.compiler  # noqa
    import coco.decb_to_b09  # noqa
    out = []
    for op in hist["ops"]:
        try:
            res = OPS[op["t"]](op)
        except Exception as e:   # harness trouble, reported as such by the parent
            res = {"r": "HARNESS:" + type(e).__name__ + ":" + str(e)[:200]}
        out.append(res)
    flags = {"hash_randomization": sys.flags.hash_randomization,
             "PYTHONHASHSEED": os.environ.get("PYTHONHASHSEED"),
             "probe": hash("coco-tools") & 0xFFFF, "looked_for_in_vain": PROBED[0], "planted": PROBED[1]}
    sys.stdout = sys.__stdout__
    print(json.dumps({"responses": out, "process": flags}))


if __name__ == "__main__":
    main()
