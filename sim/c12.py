"""C12 - conversion and decoding are deterministic across processes, hash seeds and
call histories (DESIGN.md section 3).

Simulated system: *tool processes* = fresh interpreters, each with the PYTHONHASHSEED
the scheduler drew, each executing a seeded history of ops back to back.  Oracle:
agreement - for every op the set of responses observed over all processes, hash seeds
and history positions is a singleton.  The code is only ever compared with itself.
"""
import concurrent.futures as cf
import glob
import hashlib
import json
import os
import subprocess
import time

from . import PYTHON, REPO, VERIF_DIR, basicgen, faults, formats
from .decsim import Env
from .prng import Streams, derive
from .runner import (EXIT_HARNESS, EXIT_OK, EXIT_VIOLATION, WORKERS, HarnessFailure, b64,
                     base_seed, fresh_interpreter, say, write_evidence, write_replay)

TIERS = {
    "quick": {"gen": 80, "refused": 16, "cli": 24, "dec_small": 18, "dec_big": 12, "dec_bad": 8,
              "wide": 8, "late": 12,
              "examples": "once", "reps": 8, "hist_len": 25, "families": 1, "marathons": 1},
    "thorough": {"gen": 900, "refused": 120, "cli": 80, "dec_small": 150, "dec_big": 24,
                 "wide": 60, "late": 90,
                 "dec_bad": 60, "examples": "many", "reps": 40, "hist_len": 30, "families": 6, "marathons": 6, "extra_bursts": 3},
}
WORKER = os.path.join(VERIF_DIR, "sim", "c12_worker.py")


def op_key(op):
    core = {k: v for k, v in op.items() if k not in ("label", "oclass", "fault")}
    return hashlib.sha256(json.dumps(core, sort_keys=True).encode()).hexdigest()[:20]


# ============================================================================= op pool
def _examples():
    out = []
    for p in sorted(glob.glob(os.path.join(REPO, "examples", "**", "*.bas"), recursive=True)):
        with open(p, "r") as f:
            out.append((os.path.relpath(p, REPO), f.read()))
    return out


CLI_LIKE = {"output_dependencies": True, "initialize_vars": True, "procname": "prog"}


def build_pool(seed, tier):
    cfg = TIERS[tier]
    st = Streams(seed, "C12", "pool")
    r = st.rng("workload")
    pool = []

    def add(op, label, oclass, fault=None):
        op = dict(op, label=label, oclass=oclass, fault=fault)
        op["key"] = op_key(op)
        pool.append(op)

    for name, text in _examples():
        add({"t": "convert", "text": text, "opts": dict(CLI_LIKE)}, "example:" + name,
            basicgen.option_class(CLI_LIKE))
        if cfg["examples"] == "many":
            for _ in range(2):
                o = basicgen.gen_options(r)
                add({"t": "convert", "text": text, "opts": o}, "example:" + name,
                    basicgen.option_class(o))
    # generated programs; a third of them are run under two or three option sets so that
    # ordered pairs (storage 80 then 32, dependencies on then off, config map then none) occur
    for i in range(cfg["gen"]):
        text = basicgen.gen_program(r)
        o = basicgen.gen_options(r)
        add({"t": "convert", "text": text, "opts": o}, "gen%d" % i, basicgen.option_class(o))
        if i % 3 == 0:
            o2 = dict(o)
            o2["default_str_storage"] = 32 if o.get("default_str_storage", 32) != 32 else 80
            o2["output_dependencies"] = not o.get("output_dependencies", False)
            if r.random() < 0.5:
                o2.pop("string_configs", None)
                if "string_configs" not in o:
                    o2["string_configs"] = {"A$": 10, "D$()": 64}
            o2.setdefault("procname", "prog")
            add({"t": "convert", "text": text, "opts": o2}, "gen%d/alt" % i,
                basicgen.option_class(o2))
    kinds = ("undefined", "toolarge", "twohandlers", "grammar")
    for i in range(cfg["refused"]):
        k = kinds[i % 4]
        text = basicgen.gen_program(r, refuse=k)
        o = basicgen.gen_options(r)
        add({"t": "convert", "text": text, "opts": o}, "refused-%s%d" % (k, i),
            basicgen.option_class(o), fault="refused_" + k)
    # a configuration that pydantic rejects (documented refusal) as a predecessor
    add({"t": "convert", "text": '10 A$="X"\n', "opts": {"string_configs": {"toolong$": 5}}},
        "refused-config", "s32/d0/i0/c1", fault="refused_validation")
    # the command line itself, through the simulated file system
    for i in range(cfg["cli"]):
        text = basicgen.gen_program(r) if i % 4 else r.choice(_examples())[1]
        flags = [f for f in ("-l", "-z", "-D", "-w") if r.random() < 0.4]
        if r.random() < 0.5:
            flags += ["-s", str(r.choice((32, 80, 255)))]
        config = None
        if r.random() < 0.5:
            # always the same path, several contents
            config = "string_configs:\n  strname_to_size:\n    A$: %d\n    D$(): %d\n    N$: %d\n" % (
                r.choice((10, 64, 100)), r.choice((64, 80)), r.choice((5, 200)))
            text = '5 DIM A$,N$,D$(5)\n' + text
        name = r.choice(("prog.bas", "a-b.bas", "x.bas", "Game_1.bas", "noext", "#1.bas", "dir/prog.bas"))
        if config is None and r.random() < 0.6:
            # command lines commonly DIM the same few strings, under different -s values
            text = '5 DIM A$,N$,D$(5)\n' + text
        shape = r.random()
        add({"t": "cli", "text": text, "flags": flags, "name": name, "config": config,
             "stdin": shape < 0.25, "stdout": 0.15 < shape < 0.4},
            "cli%d" % i, "cli" + "".join(sorted(f for f in flags if f.startswith("-") and len(f) == 2)))
    # decoders
    for i in range(cfg["dec_small"]):
        fmt = ("hrs", "max", "art", "pix")[i % 4]
        if fmt == "hrs":
            c = formats.gen_hrs(r, small=True)
        elif fmt == "max":
            c = formats.gen_max(r, small=True)
        else:
            c = formats.GEN[fmt](r, small=True)
        env = _env_for(r, c.tool)
        add({"t": "decode", "tool": c.tool, "opts": c.opts, "data": b64(c.data), "env": env.to_json()},
            "dec-%s%d" % (fmt, i), "dec:" + c.tool)
    for i in range(cfg["dec_big"]):
        fmt = ("cm3", "mge", "vef", "rat")[i % 4]
        c = formats.GEN[fmt](r)
        env = _env_for(r, c.tool)
        add({"t": "decode", "tool": c.tool, "opts": c.opts, "data": b64(c.data), "env": env.to_json()},
            "dec-%s%d" % (fmt, i), "dec:" + c.tool)
    for i in range(cfg["dec_bad"]):
        fmt = formats.FORMATS[i % len(formats.FORMATS)]
        c = formats.GEN[fmt](r, small=True) if fmt not in ("hrs", "max") else \
            (formats.gen_hrs(r) if fmt == "hrs" else formats.gen_max(r))
        plan, _ = faults.gen_plan(r, c, enabled=("truncate", "set", "bitflip", "blob"))
        data, _, _ = faults.apply_plan(plan, c.data)
        env = _env_for(r, c.tool)
        add({"t": "decode", "tool": c.tool, "opts": c.opts, "data": b64(data), "env": env.to_json()},
            "dec-damaged-%s%d" % (fmt, i), "dec:" + c.tool, fault="decoder_on_damaged_input")
    # decoder *families*: inputs that share most of their bytes or options (same file under
    # every pixel mode, same payload with one header flag flipped, same payload raw and
    # compressed, a neighbour size, a body-truncated copy).  State a decoder keeps between its
    # own calls (a memo keyed too coarsely, a table mutated and not restored on the error
    # path, a scratch buffer that is reused) only shows between such relatives.
    for fam_i in range(cfg.get("families", 1)):
        for tool, opts, data, label, fault in decoder_families(r):
            env = Env()
            add({"t": "decode", "tool": tool, "opts": opts, "data": b64(data), "env": env.to_json()},
                "fam%d-%s" % (fam_i, label), "dec:" + tool, fault=fault)
    # (own random stream from here on: what was drawn above stays what it was)
    r2 = st.rng("workload-2")
    # wide programs: more distinct variables / arrays / strings than any example has
    for i in range(cfg.get("wide", 0)):
        text = basicgen.gen_wide_program(r2)
        o = basicgen.gen_options(r2)
        if i % 2 == 0:
            o["initialize_vars"] = True
        add({"t": "convert", "text": text, "opts": o}, "wide%d" % i, basicgen.option_class(o))
    # late refusals: relatives of pool programs that are refused only after most passes ran
    # (same options); histories put them right before the accepted original
    origs = [op for op in pool if op["t"] == "convert" and op["label"].startswith(("gen", "example:"))
             and len(op["text"]) < 4000]
    r2.shuffle(origs)
    for op in origs[:cfg.get("late", 0)]:
        for kind, text in basicgen.late_refusals(op["text"]):
            add({"t": "convert", "text": text, "opts": op["opts"]}, "late-%s:%s" % (kind, op["key"]),
                op["oclass"], fault="refused_late_" + kind)
    # de-duplicate by key, keep order
    seen, out = set(), []
    for op in pool:
        if op["key"] not in seen:
            seen.add(op["key"])
            out.append(op)
    return out


def decoder_families(r):
    """-> list of (tool, opts, bytes, label, fault)"""
    out = []
    half = lambda d, frac=0.6: d[:max(1, int(len(d) * frac))]   # noqa: E731
    # MAX: one file under every pixel mode, with and without -i, plus body-truncated copies
    c = formats.gen_max(r, small=True, with_opts=False)
    w, rows = 16, 8
    body = bytes(r.getrandbits(8) for _ in range(w // 8 * rows))
    size = w * rows // 8
    mx = bytes([0, size >> 8, size & 255, 14, 0]) + body + bytes([255, 0, 0, 14, 0])
    for mode in formats.MAX_MODES:
        o = ([mode] if mode else []) + ["-w", str(w)]
        out.append(("maxtoppm", o, mx, "max%s" % (mode or "-bw"), None))
    for mode in ("-rb2", "-rb3", "-br2", "-br", ""):
        o = ([mode] if mode else []) + ["-w", str(w)]
        out.append(("maxtoppm", o, half(mx), "max%s-cut" % (mode or "-bw"), "decoder_on_damaged_input"))
        out.append(("maxtoppm", o + ["-i"], bytes([1]) + mx[1:], "max%s-badhdr-i" % (mode or "-bw"), None))
    art = bytes([2, 5]) + bytes(r.getrandbits(8) for _ in range(10))
    out.append(("maxtoppm", ["-newsroom"], art, "art", None))
    out.append(("maxtoppm", ["-newsroom", "-rb2"], art, "art-rb2", None))
    # HRS: one file read under different geometries, other palette, truncated
    pal = bytes(r.getrandbits(8) for _ in range(16))
    px = bytes(r.getrandbits(8) for _ in range(64))
    for w_, r_ in ((16, 8), (8, 16), (32, 4), (4, 2)):
        out.append(("hrstoppm", ["-w", str(w_), "-r", str(r_)], pal + px, "hrs%dx%d" % (w_, r_), None))
    out.append(("hrstoppm", ["-w", "16", "-r", "8"], pal[::-1] + px, "hrs-otherpal", None))
    out.append(("hrstoppm", ["-w", "16", "-r", "8"], half(pal + px), "hrs-cut", "decoder_on_damaged_input"))
    out.append(("hrstoppm", ["-w", "16", "-r", "8", "-s", "3"], b"xyz" + pal + px, "hrs-skip", None))
    # PIX: squares of several sizes and sizes that are not 2*k*k (odd sides), big before small
    for n in (8192, 8065, 2, 8, 18, 32, 5, 13, 31, 50, 61, 1985, 2048, 0, 1):
        out.append(("pixtopgm", [], bytes(r.getrandbits(8) for _ in range(n)), "pix%d" % n, None))
    # MGE: same palette bytes / other flag, raw vs RLE of the same pixels, other palette, cut
    pix = formats._pixels(r, 32000, "runs")
    palb = bytes(r.randint(0, 24) for _ in range(16))
    title = b"TITLE\0" + bytes(24)

    def mge(rgb, raw, pal_, body_):
        return bytes([0]) + pal_ + bytes([0 if rgb else 1, 1 if raw else 0]) + title + bytes([0, 0]) + body_
    rle, _ = formats.mge_rle(r, pix)
    out.append(("mgetoppm", [], mge(True, True, palb, pix), "mge-rgb-raw", None))
    out.append(("mgetoppm", [], mge(False, True, palb, pix), "mge-cmp-raw", None))
    out.append(("mgetoppm", [], mge(True, False, palb, rle), "mge-rgb-rle", None))
    out.append(("mgetoppm", [], mge(False, False, palb, rle), "mge-cmp-rle", None))
    out.append(("mgetoppm", [], mge(True, True, palb[::-1], pix), "mge-otherpal", None))
    out.append(("mgetoppm", [], half(mge(False, True, palb, pix)), "mge-cut", "decoder_on_damaged_input"))
    # RAT: same pixels, other escape / other palette, cut
    rpix = formats._pixels(r, 199 * 160, "runs")
    rpal = bytes(r.randint(0, 63) for _ in range(16))
    for esc, pal_, lab in ((7, rpal, "rat-a"), (200, rpal, "rat-otheresc"), (7, rpal[::-1], "rat-otherpal")):
        body_, _ = formats.rat_stream(r, rpix, esc)
        out.append(("rattoppm", [], bytes([esc, 1, 0]) + pal_ + body_, lab, None))
    body_, _ = formats.rat_stream(r, rpix, 7)
    out.append(("rattoppm", [], half(bytes([7, 1, 0]) + rpal + body_), "rat-cut", "decoder_on_damaged_input"))
    # CM3 and VEF: generator variants plus a cut copy each
    seen = set()
    for _ in range(40):
        c3 = formats.gen_cm3(r)
        k = (c3.params["pages"], c3.params["patterns"], c3.params["praw"] == 1.0)
        if k not in seen and len(seen) < 5:
            seen.add(k)
            out.append(("cm3toppm", [], c3.data, "cm3-p%d-m%d-raw%d" % (k[0], k[1], k[2]), None))
            if len(seen) == 2:
                out.append(("cm3toppm", [], half(c3.data), "cm3-cut", "decoder_on_damaged_input"))
    seen = set()
    for _ in range(60):
        v = formats.gen_vef(r)
        k = (v.params["type"], v.params["squashed"])
        if k not in seen:
            seen.add(k)
            out.append(("veftopng", [], v.data, "vef-t%d-sq%d" % (k[0], k[1]), None))
            if len(seen) in (2, 4):
                out.append(("veftopng", [], half(v.data), "vef-cut%d" % len(seen), "decoder_on_damaged_input"))
                hi = bytearray(v.data)
                hi[2] |= 0xC0
                out.append(("veftopng", [], bytes(hi), "vef-hipal%d" % len(seen), None))
    return out


def _env_for(r, tool):
    from .deccheck import draw_env
    return draw_env(r, tool)


# ============================================================================= histories
def build_histories(seed, pool, tier):
    """reps x (shuffle the pool, cut into slices): every op runs in `reps` different
    processes, each with its own hash seed, position and predecessors."""
    cfg = TIERS[tier]
    st = Streams(seed, "C12", "schedule")
    r = st.rng("histories")
    hs = st.rng("hashseeds")
    L = cfg["hist_len"]
    hist = []
    n = len(pool)
    for rep in range(cfg["reps"]):
        order = list(range(n))
        r.shuffle(order)
        for a in range(0, n, L):
            ops = order[a:a + L]
            # history "fault": the same op twice in one process
            if len(ops) > 2 and r.random() < 0.6:
                k = r.randrange(len(ops))
                ops.insert(r.randrange(k + 1, len(ops) + 1), ops[k])
            hseed = hs.choice((0, 1, hs.getrandbits(32))) if hs.random() < 0.08 else \
                hs.randrange(1, 2 ** 32 - 1)
            hist.append({"proc": len(hist), "hashseed": hseed, "ops": ops})
    # bursts: every op of one tool back to back in one process, in two orders, so that state
    # a tool keeps between its own calls (a hoisted buffer, a memo) meets a second call
    groups = {}
    for i, op in enumerate(pool):
        g = op["tool"] if op["t"] == "decode" else op["t"]
        groups.setdefault(g, []).append(i)
    for g in sorted(groups):
        idx = groups[g]
        if len(idx) < 2 or g == "convert":
            continue
        order = list(idx)
        r.shuffle(order)
        orders = [order, order[::-1]]
        for _ in range(cfg.get("extra_bursts", 1)):
            o2 = list(idx)
            r.shuffle(o2)
            orders.append(o2)
        for o in orders:
            hist.append({"proc": len(hist), "hashseed": hs.randrange(1, 2 ** 32 - 1),
                         "ops": o[:150]})
    # doubles: every op twice in a row ("repeated calls in one process"), in particular the
    # refused ones - a memo of the last call must not answer the second
    order = [i for i, op in enumerate(pool) if not (op["t"] == "decode" and len(op["data"]) > 20000)]
    r.shuffle(order)
    for a in range(0, len(order), 20):
        ops = [i for i in order[a:a + 20] for _ in (0, 1)]
        hist.append({"proc": len(hist), "hashseed": hs.randrange(1, 2 ** 32 - 1), "ops": ops})
    # first call: one op of every option class alone at the start of a fresh process (lazy
    # initialisation may take another path on the first call than on all later ones)
    seen_cls = set()
    for i in order:
        c = (pool[i]["t"], pool[i]["oclass"])
        if c not in seen_cls:
            seen_cls.add(c)
            hist.append({"proc": len(hist), "hashseed": hs.randrange(1, 2 ** 32 - 1), "ops": [i]})
    # marathons: several hundred cheap ops in one process (bounded caches that evict, counters
    # that wrap, lists that get trimmed only show after many calls)
    cheap = [i for i, op in enumerate(pool)
             if (op["t"] != "decode" and len(op["text"]) < 1500) or (op["t"] == "decode" and len(op["data"]) < 2000)]
    for _ in range(cfg.get("marathons", 1)):
        seq = []
        for _ in range(3):
            o2 = list(cheap)
            r.shuffle(o2)
            seq.extend(o2)
        hist.append({"proc": len(hist), "hashseed": hs.randrange(1, 2 ** 32 - 1), "ops": seq[:600]})
    # relatives: the same program text under different option sets (and the same options on
    # different texts) back to back, in both orders - where a memo keyed by the text alone,
    # or by the options alone, would answer from the wrong entry
    by_text, by_opts = {}, {}
    for i, op in enumerate(pool):
        if op["t"] == "convert":
            by_text.setdefault(hashlib.sha256(op["text"].encode()).hexdigest(), []).append(i)
            by_opts.setdefault(json.dumps(op["opts"], sort_keys=True), []).append(i)
    for groups in (by_text, by_opts):
        seq = []
        for k in sorted(groups):
            g = groups[k]
            if len(g) >= 2:
                g = list(g)
                r.shuffle(g)
                seq.extend(g[:6])
        for a in range(0, len(seq), 60):
            part = seq[a:a + 60]
            if len(part) >= 2:
                for o in (part, part[::-1]):
                    hist.append({"proc": len(hist), "hashseed": hs.randrange(1, 2 ** 32 - 1), "ops": o})
    # late refusals right before (and between two calls of) the accepted program they derive
    # from: whatever the refused conversion built and did not release meets the same shapes
    by_key = {op["key"]: i for i, op in enumerate(pool)}
    fam = {}
    for i, op in enumerate(pool):
        if op["label"].startswith("late-"):
            k = op["label"].partition(":")[2]
            if k in by_key:
                fam.setdefault(by_key[k], []).append(i)
    fams = sorted(fam.items())
    r.shuffle(fams)
    for a in range(0, len(fams), 6):
        pairs, triples = [], []
        for orig, rel in fams[a:a + 6]:
            for x in rel:
                pairs += [x, orig]
                triples += [orig, x, x, orig]
        for o in (pairs, triples):
            hist.append({"proc": len(hist), "hashseed": hs.randrange(1, 2 ** 32 - 1), "ops": o})
    return hist


def plan_digest(pool, hist):
    h = hashlib.sha256()
    for op in pool:
        h.update(op["key"].encode())
    for x in hist:
        h.update(json.dumps([x["proc"], x["hashseed"], x["ops"]]).encode())
    return h.hexdigest()


# ============================================================================= processes
CWDS = ("/", "/tmp", "/usr", "/var")
TZS = ("UTC", "PST8PDT", "JST-9", "CET-1CEST", "NZST-12NZDT")


def process_environment(hashseed):
    """Environment skew of one tool process, a pure function of its hash seed (so that a
    replay file needs nothing more): clock epoch and tick, time zone, cwd, identity."""
    import random
    r = random.Random(derive("penv", hashseed))
    return {
        "epoch": r.choice((0.0, 86399.0, 946684799.0, 1700000000.0, 4102444800.0)) + r.randrange(10 ** 6),
        "tick": r.choice((1e-6, 0.001, 0.75, 61.0, 86400.0)),
        "cpu_count": r.choice((1, 2, 16, 128)),
        # order in which the keys of an option mapping (string sizes) are listed
        "perm_seed": r.getrandbits(30),
        # interpreter optimisation level of the tool process (python, python -O, python -OO)
        "optimize": r.choice((0, 0, 0, 0, 0, 1, 2)),
        # warning filters of the tool process (python -W error turns every warning into an exception)
        "warnings": r.choice(("", "", "", "", "", "", "", "error")),
        # python -bb: comparing or formatting bytes as str is an error
        "bytes_warning": r.random() < 0.12,
        "cwd": r.choice(CWDS),
        "environ": {"TZ": r.choice(TZS), "USER": r.choice(("root", "alice", "bob")),
                    "LOGNAME": r.choice(("root", "alice")), "HOME": r.choice(("/root", "/home/alice", "/")),
                    "HOSTNAME": r.choice(("coco", "build-7", "localhost")),
                    "COLUMNS": str(r.choice((1, 4, 20, 80, 200))), "LINES": str(r.choice((1, 5, 24, 100))),
                    "TERM": r.choice(("dumb", "xterm-256color", "")),
                    "LANG": r.choice(("C", "C.UTF-8", "en_US.UTF-8", "POSIX")),
                    "PYTHONINTMAXSTRDIGITS": r.choice(("4300", "4300", "0", "100000", "640"))},
        # are the standard streams of command-line and decoder ops terminals?
        "tty": r.random() < 0.25,
        # does a file the command line looked for in vain below its working directory exist?
        "plant": r.random() < 0.35,
    }


def _no_aslr():
    """Command prefix that starts a tool process without address-space randomisation, so that
    object addresses (id(), the order in which the allocator hands blocks out again) are a
    function of hash seed, environment and history like everything else - a change whose
    effect goes through addresses then replays exactly.  Empty when the host refuses."""
    import platform
    import shutil
    exe = shutil.which("setarch")
    if not exe:
        return []
    cmd = [exe, platform.machine(), "-R"]
    try:
        a = [subprocess.run(cmd + [PYTHON, "-c", "print(id(object()))"], capture_output=True, text=True,
                            timeout=60).stdout for _ in (0, 1)]
    except Exception:
        return []
    return cmd if a[0] and a[0] == a[1] else []


NO_ASLR = None


def run_process(hashseed, ops, timeout=900, penv=None):
    """Start one tool process (fresh interpreter, given hash seed), feed it the history."""
    penv = penv or process_environment(hashseed)
    env = dict(os.environ)
    env["PYTHONHASHSEED"] = str(hashseed)
    env["PYTHONDONTWRITEBYTECODE"] = "1"
    # variables the interpreter reads at start-up must be in the child's real environment
    for k_ in ("PYTHONINTMAXSTRDIGITS",):
        if k_ in penv.get("environ", {}):
            env[k_] = penv["environ"][k_]
    core = [{k: v for k, v in op.items() if k not in ("label", "oclass", "fault", "key")}
            for op in ops]
    try:
        opt = ["-" + "O" * int(penv.get("optimize", 0))] if penv.get("optimize") else []
        if penv.get("warnings"):
            opt += ["-W", penv["warnings"]]
        if penv.get("bytes_warning"):
            opt += ["-bb"]
        global NO_ASLR
        if NO_ASLR is None:
            NO_ASLR = _no_aslr()
        p = subprocess.run(NO_ASLR + [PYTHON] + opt + [WORKER],
                           input=json.dumps({"ops": core, "penv": penv}), env=env,
                           capture_output=True, text=True, timeout=timeout, cwd=VERIF_DIR)
    except subprocess.TimeoutExpired:
        raise HarnessFailure("tool process exceeded the wall-clock backstop")
    if p.returncode != 0:
        raise HarnessFailure("tool process failed rc=%s: %s" % (p.returncode, p.stderr[-600:]))
    doc = json.loads(p.stdout.strip().splitlines()[-1])
    rs = doc["responses"]
    if len(rs) != len(ops):
        raise HarnessFailure("tool process answered %d of %d ops" % (len(rs), len(ops)))
    for x in rs:
        if x["r"].startswith("HARNESS:"):
            raise HarnessFailure("harness error inside tool process: %s" % x["r"])
    return [x["r"] for x in rs], doc["process"]


def run_all(pool, hist):
    def one(h):
        return run_process(h["hashseed"], [pool[i] for i in h["ops"]])
    with cf.ThreadPoolExecutor(max_workers=WORKERS) as ex:
        return list(ex.map(one, hist))


# ============================================================================= minimisation
def _alone(op, hashseed, penv=None):
    return run_process(hashseed, [op], penv=penv)[0][0]


def _blame_environment(op, seed, pa, pb, ra):
    """Which component of the process environment flips the answer from ra?"""
    for comp in ("optimize", "clock", "TZ", "cwd", "working-directory-contents", "identity"):
        mix = json.loads(json.dumps(pa))
        if comp == "working-directory-contents":
            mix["plant"] = pb.get("plant", False)
        elif comp == "optimize":
            mix["optimize"] = pb.get("optimize", 0)
            mix["warnings"] = pb.get("warnings", "")
            mix["bytes_warning"] = pb.get("bytes_warning", False)
        elif comp == "clock":
            mix["epoch"], mix["tick"] = pb["epoch"], pb["tick"]
        elif comp == "TZ":
            mix["environ"]["TZ"] = pb["environ"]["TZ"]
        elif comp == "cwd":
            mix["cwd"] = pb["cwd"]
        else:
            tz = mix["environ"]["TZ"]
            mix["environ"] = dict(pb["environ"], TZ=tz)
            mix["cpu_count"] = pb.get("cpu_count")
            mix["perm_seed"] = pb.get("perm_seed")
            mix["tty"] = pb.get("tty")
        if _alone(op, seed, mix) != ra:
            return comp, mix
    return "combination", pb


def _shrink_text(op, pred, budget=40):
    """Delete lines, then ':'-separated statements, while pred(op') stays true."""
    if op["t"] not in ("convert", "cli"):
        return op
    text = op["text"]
    sep = "\r" if "\r" in text and "\n" not in text else "\n"
    lines = [x for x in text.replace("\r", "\n").split("\n") if x.strip()]
    if not pred(dict(op, text=sep.join(lines) + sep)):
        return op          # the normalised spelling no longer shows it: keep the text as it is
    tries = 0
    changed = True
    while changed and len(lines) > 1 and tries < budget:
        changed = False
        for k in range(len(lines)):
            cand = lines[:k] + lines[k + 1:]
            tries += 1
            if pred(dict(op, text=sep.join(cand) + sep)):
                lines, changed = cand, True
                break
            if tries >= budget:
                break
    for k in range(len(lines)):
        num, _, rest = lines[k].partition(" ")
        parts = rest.split(":")
        j = 0
        while len(parts) > 1 and j < len(parts) and tries < budget:
            cand = parts[:j] + parts[j + 1:]
            tries += 1
            trial = lines[:k] + [num + " " + ":".join(cand)] + lines[k + 1:]
            if pred(dict(op, text=sep.join(trial) + sep)):
                parts = cand
                lines = trial
            else:
                j += 1
    return dict(op, text=sep.join(lines) + sep)


def minimise(pool, hist, results, key, obs):
    """obs: list of (proc, pos, response) for the disagreeing op."""
    op = next(o for o in pool if o["key"] == key)
    by_resp = {}
    for proc, pos, resp in sorted(obs, key=lambda x: (x[1], x[0])):
        by_resp.setdefault(resp, (proc, pos))           # the shortest history showing each answer
    (ra, (pa, posa)), (rb, (pb, posb)) = sorted(by_resp.items())[:2]
    sa, sb = hist[pa]["hashseed"], hist[pb]["hashseed"]
    alone_a, alone_b = _alone(op, sa), _alone(op, sb)
    if alone_a != alone_b:
        pa_, pb_ = process_environment(sa), process_environment(sb)
        cross = _alone(op, sa, pb_)          # A's hash seed in B's environment
        if cross == alone_a:
            kind, ea, eb = "hashseed", pa_, pa_      # the environment is not needed
        elif cross == alone_b:
            comp, mix = _blame_environment(op, sa, pa_, pb_, alone_a)
            kind, ea, eb, sb = "environment:" + comp, pa_, mix, sa
        else:
            kind, ea, eb = "process", pa_, pb_

        def pred(o):
            return _alone(o, sa, ea) != _alone(o, sb, eb)
        small = _shrink_text(op, pred)
        return {"kind": kind, "op": _core(small), "label": op["label"], "hashseed_a": sa,
                "hashseed_b": sb, "penv_a": ea, "penv_b": eb,
                "expect": [_alone(small, sa, ea), _alone(small, sb, eb)]}
    # same answer alone under both seeds: some history changes it
    for proc, pos, resp in ((pa, posa, ra), (pb, posb, rb)):
        s = hist[proc]["hashseed"]
        alone = alone_a if proc == pa else alone_b
        if resp == alone:
            continue
        prefix = [pool[i] for i in hist[proc]["ops"][:pos]]
        suffix = []
        again = run_process(s, prefix + [op])[0][-1]
        if again == alone:
            # the answer may go through object addresses, which also depend on what the process
            # read after this op (the whole history is parsed up front): keep the ops that follow
            suffix = [pool[i] for i in hist[proc]["ops"][pos + 1:]]
            if run_process(s, prefix + [op] + suffix)[0][pos] == alone:
                # not reproducible from the recorded history: unstable under equal conditions
                return {"kind": "unstable", "op": _core(op), "label": op["label"], "hashseed": s,
                        "prefix": [_core(o) for o in prefix], "expect": [alone, resp]}
            for cut in (len(suffix) // 2, len(suffix) // 4, 1):
                if 0 < cut < len(suffix) and \
                        run_process(s, prefix + [op] + suffix[:cut])[0][pos] != alone:
                    suffix = suffix[:cut]

        runs = [0]

        def at(pre, o):
            runs[0] += 1
            return run_process(s, pre + [o] + suffix)[0][len(pre)]
        # ddmin the prefix (bounded: every reduction kept was validated, so stopping early
        # only leaves a longer replay file)
        n = 2
        while len(prefix) >= 1 and runs[0] < 80:
            chunk = max(1, len(prefix) // n)
            reduced = False
            for a in range(0, len(prefix), chunk):
                cand = prefix[:a] + prefix[a + chunk:]
                if at(cand, op) != alone:
                    prefix, n, reduced = cand, max(2, n - 1), True
                    break
            if not reduced:
                if chunk == 1:
                    break
                n = min(len(prefix), n * 2)
        # shrink the texts: first the predecessors (the op's own answer alone stays `alone`),
        # then the op itself (its alone answer is recomputed)
        for k in range(len(prefix) if len(prefix) <= 4 else 0):
            def pred_k(o, k=k):
                return at(prefix[:k] + [o] + prefix[k + 1:], op) != alone
            prefix[k] = _shrink_text(prefix[k], pred_k, budget=15)

        def pred_op(o):
            return at(prefix, o) != _alone(o, s)
        op = _shrink_text(op, pred_op, budget=15)
        alone = _alone(op, s)
        after = at(prefix, op)
        return {"kind": "history", "op": _core(op), "label": op["label"], "hashseed": s,
                "prefix": [_core(o) for o in prefix], "suffix": [_core(o) for o in suffix],
                "expect": [alone, after]}
    return {"kind": "unstable", "op": _core(op), "label": op["label"], "hashseed": sa,
            "prefix": [], "expect": [ra, rb]}


def _core(op):
    return {k: v for k, v in op.items() if k not in ("label", "oclass", "fault", "key")}


def check_replay_doc(doc):
    """-> (reproduced?, observed responses)"""
    op = doc["op"]
    if doc["kind"] == "hashseed" or doc["kind"] == "process" or doc["kind"].startswith("environment"):
        a = _alone(op, doc["hashseed_a"], doc.get("penv_a"))
        b = _alone(op, doc["hashseed_b"], doc.get("penv_b"))
        return a != b, [a, b]
    if doc["kind"] == "history":
        alone = _alone(op, doc["hashseed"])
        after = run_process(doc["hashseed"], doc["prefix"] + [op] + doc.get("suffix", []))[0][len(doc["prefix"])]
        return alone != after, [alone, after]
    seen = set()
    for _ in range(8):
        seen.add(run_process(doc["hashseed"], doc["prefix"] + [op])[0][-1])
        if len(seen) > 1:
            return True, sorted(seen)
    return False, sorted(seen)


# ============================================================================= main
def main(tier):
    t0 = time.time()
    seed = base_seed()
    pool = build_pool(seed, tier)
    hist = build_histories(seed, pool, tier)
    pd = plan_digest(pool, hist)
    say("C12 tier=%s VERIF_SEED=%d ops=%d processes=%d plan=%s repo=%s" %
        (tier, seed, len(pool), len(hist), pd[:16], REPO))
    # the harness itself must not depend on the str hash: rebuild the plan under another seed
    rc, out, err = fresh_interpreter(["C12", "--tier", tier, "--digests", "plan"], hashseed="31337")
    if rc != 0 or pd not in out:
        raise HarnessFailure("schedule construction is not deterministic across hash seeds "
                             "(rc=%s) %s %s" % (rc, out[-200:], err[-300:]))
    results = run_all(pool, hist)
    # ---- agreement oracle
    obs = {}
    for h, (resps, proc) in zip(hist, results):
        for pos, (i, resp) in enumerate(zip(h["ops"], resps)):
            obs.setdefault(pool[i]["key"], []).append((h["proc"], pos, resp))
    disagree = [k for k in sorted(obs) if len(set(x[2] for x in obs[k])) > 1]
    reported = []
    for k in disagree[:6]:
        doc = minimise(pool, hist, results, k, obs[k])
        doc["seed"] = seed
        ok, got = check_replay_doc(doc)
        if not ok:
            raise HarnessFailure("minimised disagreement on %s did not reproduce: %s" % (doc["label"], got))
        path = write_replay("C12", "%d-%s" % (seed, k[:10]), doc)
        reported.append((path, doc))
    for path, doc in reported:
        say("VIOLATION property=C12 replay=%s" % path)
        say("  %s dependence: op=%s responses=%s" % (doc["kind"], doc["label"], doc["expect"]))
    wall = time.time() - t0
    # ---- evidence
    execs = sum(len(h["ops"]) for h in hist)
    seeds = sorted(set(h["hashseed"] for h in hist))
    pairs = set()
    fault_fired = {"process_restart_new_hashseed": len(hist), "same_op_repeated_in_process": 0,
                   "clock_epoch_and_rate_skew": len(set((process_environment(h["hashseed"])["epoch"],
                                                          process_environment(h["hashseed"])["tick"])
                                                         for h in hist)),
                   "interpreter_optimisation_level_O_or_OO": sum(
                       1 for h in hist if process_environment(h["hashseed"]).get("optimize")),
                   "timezone_cwd_identity_skew": len(set(json.dumps(process_environment(h["hashseed"])["environ"],
                                                                      sort_keys=True) +
                                                           process_environment(h["hashseed"])["cwd"]
                                                           for h in hist))}
    fault_fired["working_directory_file_appears:processes_armed"] = sum(
        1 for h in hist if process_environment(h["hashseed"]).get("plant"))
    fault_fired["working_directory_file_appears:paths_the_tool_looked_for"] = sum(
        p.get("looked_for_in_vain", 0) for _, p in results)
    fault_fired["working_directory_file_appears:files_planted"] = sum(p.get("planted", 0) for _, p in results)
    for h in hist:
        seen_here = set()
        prev = None
        for i in h["ops"]:
            op = pool[i]
            if prev is not None:
                pairs.add((prev["oclass"], op["oclass"]))
                if prev.get("fault"):
                    k = "predecessor_" + prev["fault"]
                    fault_fired[k] = fault_fired.get(k, 0) + 1
            if i in seen_here:
                fault_fired["same_op_repeated_in_process"] += 1
            seen_here.add(i)
            prev = op
    resp_kinds = {}
    for k in obs:
        r0 = obs[k][0][2].split(":")[0]
        if r0 == "REFUSED":
            r0 = ":".join(obs[k][0][2].split(":")[:2])
        resp_kinds[r0] = resp_kinds.get(r0, 0) + 1
    multi = sum(1 for k in obs if len(set((p, ) for p, _, _ in obs[k])) >= 2)
    probes = sorted(set(p["probe"] for _, p in results))
    samples = []
    for h in hist[:2]:
        samples.append({"process": h["proc"], "PYTHONHASHSEED": h["hashseed"],
                        "history": [pool[i]["label"] + " [" + pool[i]["oclass"] + "]" for i in h["ops"]]})
    coverage = {
        "evaluations": execs,
        "distinct_nontrivial": multi,
        "rule": "one evaluation = one op (convert call, decb_to_b09 command line, or decoder run) "
                "executed at some position of some tool process's history; an op is non-trivial "
                "when it was executed in at least two processes with different hash seeds and "
                "predecessors, so that agreement had something to compare; distinct = distinct "
                "op digests",
        "samples": samples,
        "processes": len(hist),
        "distinct_hash_seeds": len(seeds),
        "distinct_str_hash_probes": len(probes),
        "distinct_ops": len(pool),
        "ops_by_kind": {t: sum(1 for o in pool if o["t"] == t) for t in ("convert", "cli", "decode")},
        "responses_by_kind": resp_kinds,
        "runs_per_hour": int(3600 * execs / max(wall, 1e-6)),
        "states_measure": "distinct ordered (predecessor option class -> successor option class) "
                          "pairs reached inside one process",
        "states": len(pairs),
        "fault_kinds": fault_fired,
        "components": {
            "real": ["the whole coco package (compiler, parser, visitors, procbank, decoders, "
                     "decb_to_b09.start)", "parsimonious", "pydantic / pydantic_yaml", "PIL", "pypng",
                     "CPython str hashing with the drawn PYTHONHASHSEED"],
            "stub": ["wall clock, monotonic clock and datetime of every tool process (simulated: own "
                     "epoch and tick per process)", "TZ / cwd / USER / HOME / HOSTNAME / LANG / COLUMNS of "
                     "every tool process (scheduler-chosen)",
                     "file system and std streams of decoder and command-line ops (SimFS)",
                     "contents of the working directory of command-line ops (a file the tool looked "
                     "for in vain may exist in a second run)",
                     "address-space layout of every tool process (randomisation %s)" %
                     ("switched off with setarch -R" if NO_ASLR else "left on: the host refuses setarch -R"),
                     "process boundary: a fresh interpreter per simulated tool process"],
        },
        "plan_digest": pd,
        "report_digest": hashlib.sha256(json.dumps(
            [(k, sorted(obs[k])) for k in sorted(obs)]).encode()).hexdigest(),
        "disagreements": len(disagree),
        "exhaustive": False,
    }
    write_evidence("C12", tier, seed, "exploration", coverage, wall, len(reported), [
        "agreement oracle only: a deterministic but wrong output is invisible here (that is the "
        "business of C01-C11)",
        "a refusal is compared by its exception class and its message text (what the user "
        "reads on stderr), with memory addresses blanked",
        "asynchronous aborts and concurrent callers are not injected: the property speaks of "
        "programs converted before, not of interrupted or overlapping calls",
    ])
    say("REPORT-DIGEST C12 %s" % coverage["report_digest"])
    say("C12 %s: %d op executions over %d processes / %d hash seeds, %d disagreement(s), %.1fs" %
        (tier, execs, len(hist), len(seeds), len(disagree), wall))
    return EXIT_VIOLATION if reported else EXIT_OK


def digests(tier):
    seed = base_seed()
    pool = build_pool(seed, tier)
    hist = build_histories(seed, pool, tier)
    print(plan_digest(pool, hist))
    return EXIT_OK


def replay(path):
    with open(path) as f:
        doc = json.load(f)
    ok, got = check_replay_doc(doc)
    say("replay C12 %s: kind=%s responses=%s" % (os.path.basename(path), doc["kind"], got))
    if ok:
        say("VIOLATION property=C12 replay=%s" % path)
        return EXIT_VIOLATION
    say("replay did not reproduce: expected %s" % doc["expect"])
    return EXIT_HARNESS
