"""Deterministic simulation with fault injection for coco-tools (see /verif/DESIGN.md)."""
import os
import sys

VERIF_DIR = os.path.dirname(os.path.dirname(os.path.abspath(__file__)))
REPO = os.environ.get("VERIF_REPO", "/repo")
PYTHON = "/venv/bin/python"
GUARD = "COCO_TOOLS_VERIF"


def use_repo():
    """Make `import coco` resolve to REPO's working tree (a scratch copy when
    VERIF_REPO is set).  Must run before the first `import coco`."""
    if "coco" in sys.modules:
        got = os.path.dirname(os.path.dirname(os.path.abspath(sys.modules["coco"].__file__)))
        if os.path.realpath(got) != os.path.realpath(REPO):
            raise RuntimeError("coco already imported from %s, wanted %s" % (got, REPO))
        return
    if REPO in sys.path:
        sys.path.remove(REPO)
    sys.path.insert(0, REPO)
