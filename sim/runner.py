"""Shared driver pieces: seeds and tiers, the parallel map with a wall-clock backstop,
known findings, replay files, evidence files, exit codes."""
import base64
import concurrent.futures as cf
import faulthandler
import json
import multiprocessing as mp
import os
import subprocess
import sys
import time

from . import PYTHON, REPO, VERIF_DIR

EXIT_OK, EXIT_VIOLATION, EXIT_HARNESS = 0, 1, 2
WORKERS = int(os.environ.get("VERIF_WORKERS", "16"))


def base_seed():
    try:
        return int(os.environ.get("VERIF_SEED", "1"))
    except ValueError:
        return 1


def tier(argv_tier=None):
    t = argv_tier or os.environ.get("VERIF_TIER") or "quick"
    return t if t in ("quick", "thorough") else "quick"


class HarnessFailure(Exception):
    pass


def _init_worker():
    faulthandler.enable()


def pmap(fn, tasks, workers=None, per_task_timeout=600.0):
    """Run fn over tasks in a fork pool; results in task order.  A worker that dies or
    a task that exceeds the wall-clock backstop is a harness failure, never a pass."""
    workers = workers or WORKERS
    if workers <= 1 or len(tasks) <= 1:
        return [fn(t) for t in tasks]
    ctx = mp.get_context("fork")
    ex = cf.ProcessPoolExecutor(max_workers=min(workers, len(tasks)), mp_context=ctx,
                                initializer=_init_worker)
    try:
        futs = [ex.submit(fn, t) for t in tasks]
        out = []
        deadline = time.monotonic() + per_task_timeout * max(1, (len(tasks) + workers - 1) // workers)
        for f in futs:
            left = deadline - time.monotonic()
            try:
                out.append(f.result(timeout=max(1.0, left)))
            except cf.TimeoutError:
                raise HarnessFailure("wall-clock backstop expired in worker pool")
            except cf.process.BrokenProcessPool:
                raise HarnessFailure("a worker process died")
        return out
    finally:
        for p in list(getattr(ex, "_processes", {}).values()):
            try:
                if p.is_alive():
                    p.kill()
            except Exception:
                pass
        ex.shutdown(wait=False, cancel_futures=True)


def chunks(n, size):
    return [(a, min(n, a + size)) for a in range(0, n, size)]


# ------------------------------------------------------------------------- findings
def load_findings(prop):
    p = os.path.join(VERIF_DIR, "known_findings.json")
    if not os.path.exists(p):
        return []
    with open(p) as f:
        doc = json.load(f)
    return [e for e in doc.get("findings", []) if e.get("property") == prop
            and e.get("status") == "known"]


# ------------------------------------------------------------------------- replays
def b64(b):
    return base64.b64encode(bytes(b)).decode()


def unb64(s):
    return base64.b64decode(s)


def write_replay(prop, name, doc):
    d = os.path.join(VERIF_DIR, "replays")
    os.makedirs(d, exist_ok=True)
    path = os.path.join(d, "%s-%s.json" % (prop, name))
    doc = dict(doc, property=prop)
    with open(path, "w") as f:
        json.dump(doc, f, indent=1, sort_keys=True)
    return path


def fresh_interpreter(args, hashseed="0", timeout=600, stdin=None):
    """Run this framework's CLI in a fresh interpreter (used for replay validation and
    the determinism self-check)."""
    env = dict(os.environ)
    env["PYTHONHASHSEED"] = str(hashseed)
    env["PYTHONDONTWRITEBYTECODE"] = "1"
    p = subprocess.run([PYTHON, os.path.join(VERIF_DIR, "run_check.py")] + list(args),
                       env=env, cwd=VERIF_DIR, capture_output=True, text=True, timeout=timeout,
                       input=stdin)
    return p.returncode, p.stdout, p.stderr


# ------------------------------------------------------------------------- evidence
def write_evidence(prop, tier_, seed, level, coverage, wall_s, violations, assumptions):
    d = os.path.join(VERIF_DIR, "evidence")
    os.makedirs(d, exist_ok=True)
    doc = {
        "property_id": prop, "tier": tier_, "seed": int(seed), "level": level,
        "coverage": coverage, "assumptions": assumptions, "wall_s": round(wall_s, 3),
        "violations": int(violations),
        "repo": REPO,
    }
    path = os.path.join(d, "%s.json" % prop)
    tmp = path + ".tmp"
    with open(tmp, "w") as f:
        json.dump(doc, f, indent=1, sort_keys=True, default=str)
    os.replace(tmp, path)
    return path


def say(*a):
    print(*a, flush=True)
