"""Independent readers for the decoders' outputs (neither PIL nor pypng is used here).

classify_netpbm / classify_png return (cls, info):
  cls in {"complete", "fewer_samples", "more_samples", "bad_header", "index_out_of_palette"}
"""
import struct
import zlib

_WS = b" \t\r\n\x0b\x0c"


def _tokens(data, n):
    """First n whitespace-separated header tokens of a Netpbm stream ('#' comments
    skipped); returns (tokens, offset just after the single whitespace byte that
    terminates the last token) or None."""
    pos, toks = 0, []
    L = len(data)
    while len(toks) < n:
        while pos < L and (data[pos] in _WS or data[pos] == 0x23):
            if data[pos] == 0x23:
                while pos < L and data[pos] not in b"\r\n":
                    pos += 1
            else:
                pos += 1
        if pos >= L:
            return None
        start = pos
        while pos < L and data[pos] not in _WS and data[pos] != 0x23:
            pos += 1
        toks.append(data[start:pos])
    if pos >= L or data[pos] not in _WS:
        return None
    return toks, pos + 1


def classify_netpbm(data: bytes):
    t = _tokens(data, 4)
    if t is None:
        return "bad_header", {"why": "header incomplete", "len": len(data)}
    (magic, w, h, mx), off = t
    if magic not in (b"P5", b"P6"):
        return "bad_header", {"why": "magic %r" % magic}
    try:
        w, h, mx = int(w), int(h), int(mx)
    except ValueError:
        return "bad_header", {"why": "non-numeric header"}
    if w < 0 or h < 0 or not (0 < mx < 65536):
        return "bad_header", {"why": "bad numbers", "w": w, "h": h, "max": mx}
    ch = 3 if magic == b"P6" else 1
    per = 1 if mx < 256 else 2
    need = w * h * ch * per
    have = len(data) - off
    info = {"magic": magic.decode(), "w": w, "h": h, "max": mx, "need": need, "have": have}
    if have < need:
        return "fewer_samples", info
    if have > need:
        return "more_samples", info
    return "complete", info


_PNG_SIG = b"\x89PNG\r\n\x1a\n"


def _paeth(a, b, c):
    p = a + b - c
    pa, pb, pc = abs(p - a), abs(p - b), abs(p - c)
    if pa <= pb and pa <= pc:
        return a
    return b if pb <= pc else c


def classify_png(data: bytes):
    if data[:8] != _PNG_SIG:
        return "bad_header", {"why": "signature"}
    pos = 8
    ihdr = plte = None
    idat = []
    seen_end = False
    while pos < len(data):
        if pos + 8 > len(data):
            return "bad_header", {"why": "chunk header cut"}
        ln, typ = struct.unpack(">I4s", data[pos:pos + 8])
        body = data[pos + 8:pos + 8 + ln]
        crc = data[pos + 8 + ln:pos + 12 + ln]
        if len(body) < ln or len(crc) < 4:
            return "bad_header", {"why": "chunk %r cut" % typ}
        if struct.unpack(">I", crc)[0] != (zlib.crc32(typ + body) & 0xFFFFFFFF):
            return "bad_header", {"why": "crc of %r" % typ}
        pos += 12 + ln
        if typ == b"IHDR":
            ihdr = body
        elif typ == b"PLTE":
            plte = body
        elif typ == b"IDAT":
            idat.append(body)
        elif typ == b"IEND":
            seen_end = True
            break
    if ihdr is None or len(ihdr) != 13 or not seen_end:
        return "bad_header", {"why": "IHDR/IEND missing"}
    if pos != len(data):
        return "more_samples", {"why": "bytes after IEND", "extra": len(data) - pos}
    w, h, depth, ctype, comp, flt, inter = struct.unpack(">IIBBBBB", ihdr)
    info = {"w": w, "h": h, "depth": depth, "ctype": ctype}
    if comp != 0 or flt != 0:
        return "bad_header", dict(info, why="compression/filter method")
    if inter != 0:
        return "bad_header", dict(info, why="interlaced output not expected from these tools")
    chans = {0: 1, 2: 3, 3: 1, 4: 2, 6: 4}.get(ctype)
    if chans is None or depth not in (1, 2, 4, 8, 16):
        return "bad_header", dict(info, why="colour type/depth")
    if ctype == 3 and (plte is None or len(plte) % 3 or not plte):
        return "bad_header", dict(info, why="PLTE missing")
    try:
        d = zlib.decompressobj()
        raw = d.decompress(b"".join(idat)) + d.flush()
        if not d.eof:
            return "fewer_samples", dict(info, why="zlib stream incomplete")
    except zlib.error as e:
        return "bad_header", dict(info, why="zlib: %s" % e)
    bits = depth * chans
    stride = (w * bits + 7) // 8
    need = h * (stride + 1)
    info.update(need=need, have=len(raw))
    if len(raw) < need:
        info["scanlines"] = len(raw) // (stride + 1) if stride + 1 else 0
        return "fewer_samples", info
    if len(raw) > need:
        return "more_samples", info
    if ctype != 3:
        return "complete", info
    # undo filters to see the palette indices
    bpp = max(1, bits // 8)
    npal = len(plte) // 3
    prev = bytearray(stride)
    mx = -1
    for y in range(h):
        ft = raw[y * (stride + 1)]
        line = bytearray(raw[y * (stride + 1) + 1:(y + 1) * (stride + 1)])
        if ft == 1:
            for i in range(bpp, stride):
                line[i] = (line[i] + line[i - bpp]) & 255
        elif ft == 2:
            for i in range(stride):
                line[i] = (line[i] + prev[i]) & 255
        elif ft == 3:
            for i in range(stride):
                a = line[i - bpp] if i >= bpp else 0
                line[i] = (line[i] + ((a + prev[i]) >> 1)) & 255
        elif ft == 4:
            for i in range(stride):
                a = line[i - bpp] if i >= bpp else 0
                c = prev[i - bpp] if i >= bpp else 0
                line[i] = (line[i] + _paeth(a, prev[i], c)) & 255
        elif ft != 0:
            return "bad_header", dict(info, why="filter type %d" % ft)
        if depth == 8:
            m = max(line) if line else -1
        else:
            m = -1
            mask = (1 << depth) - 1
            per = 8 // depth
            for x in range(w):
                b = line[x // per]
                v = (b >> (8 - depth * (x % per + 1))) & mask
                if v > m:
                    m = v
        if m > mx:
            mx = m
        prev = line
    info.update(palette_entries=npal, max_index=mx)
    if mx >= npal:
        return "index_out_of_palette", info
    return "complete", info


def classify(tool, data: bytes):
    if tool == "veftopng":
        return classify_png(data)
    return classify_netpbm(data)
