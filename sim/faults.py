"""Fault kinds: damage to stored or in-flight image bytes (DESIGN.md section 5).

A fault plan is a JSON-serialisable list of dicts; apply_plan() is a pure function of
(plan, bytes).  Every fault reports whether it changed anything ("effective") so the
evidence can tell injected from merely configured faults.
"""
import random

KINDS = ("truncate", "pipe_eof", "bitflip", "set", "pad", "sector_zero", "sector_drop",
         "sector_dup", "blob", "insert", "delete", "swap", "concat", "balance")
# "replace" (the bytes of a valid file of ANOTHER format) is drawn by the case generator,
# not by gen_plan, because it needs a second encoder
SECTOR = 256
# truncation is what the property names first; header/control-byte corruption second
WEIGHT = {"truncate": 3, "pipe_eof": 2, "set": 2, "bitflip": 2}


def _clamp(at, n):
    if n <= 0:
        return 0
    return at % n if at >= n or at < 0 else at


def apply_fault(f, data: bytes):
    """-> (new bytes, damaged offsets in new coordinates, effective?)"""
    k = f["kind"]
    n = len(data)
    if k in ("truncate", "pipe_eof"):
        at = min(max(0, f["at"]), n)
        return data[:at], ([at] if at < n else []), at < n
    if k == "bitflip":
        if n == 0:
            return data, [], False
        at = _clamp(f["at"], n)
        b = bytearray(data)
        b[at] ^= 1 << (f["bit"] & 7)
        return bytes(b), [at], True
    if k == "set":
        if n == 0:
            return data, [], False
        at = _clamp(f["at"], n)
        v = f["val"] & 255
        if data[at] == v:
            return data, [], False
        b = bytearray(data)
        b[at] = v
        return bytes(b), [at], True
    if k == "pad":
        cnt = f["n"]
        if f["fill"] == "rand":
            r = random.Random(f["seed"])
            tail = bytes(r.getrandbits(8) for _ in range(cnt))
        elif f["fill"] == "block":   # XMODEM: pad to a multiple of 128 with 0x1A
            cnt = (-n) % 128 or 128
            tail = b"\x1a" * cnt
        else:
            tail = bytes([int(f["fill"], 16)]) * cnt
        return data + tail, ([n] if cnt else []), cnt > 0
    if k in ("sector_zero", "sector_drop", "sector_dup"):
        ns = (n + SECTOR - 1) // SECTOR
        if ns == 0:
            return data, [], False
        s = f["sector"] % ns
        a, b = s * SECTOR, min(n, (s + 1) * SECTOR)
        if k == "sector_zero":
            new = data[:a] + bytes(b - a) + data[b:]
            return new, ([a] if new != data else []), new != data
        if k == "sector_drop":
            return data[:a] + data[b:], [a], True
        return data[:b] + data[a:b] + data[b:], [b], True
    if k == "insert":      # a byte slipped in (framing error): everything after it shifts
        at = min(max(0, f["at"]), n)
        return data[:at] + bytes([f["val"] & 255]) + data[at:], [at], True
    if k == "delete":      # a byte lost in transfer
        if n == 0:
            return data, [], False
        at = _clamp(f["at"], n)
        return data[:at] + data[at + 1:], [at], True
    if k == "swap":        # two adjacent bytes exchanged (byte-order slip)
        if n < 2:
            return data, [], False
        at = _clamp(f["at"], n - 1)
        if data[at] == data[at + 1]:
            return data, [], False
        b = bytearray(data)
        b[at], b[at + 1] = b[at + 1], b[at]
        return bytes(b), [at], True
    if k == "relength":    # 16-bit big-endian length field at hdr+1 and the data after the 5-byte
        hdr, d = f["hdr"], f["delta"]            # header lengthened/shortened to match it
        if n < hdr + 5:
            return data, [], False
        size = data[hdr + 1] * 256 + data[hdr + 2]
        new = max(0, min(65535, size + d))
        end = min(n, hdr + 5 + size)
        body = data[hdr + 5:end]
        body = body + body[-1:] * (new - len(body)) if new > len(body) else body[:new]
        out = data[:hdr + 1] + bytes([new >> 8, new & 255]) + data[hdr + 3:hdr + 5] + body + data[end:]
        return out, [hdr + 1, hdr + 5 + min(new, size)], out != data
    if k == "balance":     # two coordinated corruptions that keep a total: +k here, -k there
        if n < 2:
            return data, [], False
        a, b2 = _clamp(f["a"], n), _clamp(f["b"], n)
        if a == b2:
            return data, [], False
        bb = bytearray(data)
        bb[a] = (bb[a] + f["k"]) & 255
        bb[b2] = (bb[b2] - f["k"]) & 255
        return bytes(bb), sorted((a, b2)), True
    if k == "concat":      # the file followed by a slice of itself: a botched append/merge whose
        a = min(max(0, f.get("from", 0)), n)   # tail looks like further records / runs / pages
        tail = data[a:a + f["n"]]
        return data + tail, ([n] if tail else []), len(tail) > 0
    if k == "replace":
        import base64
        return base64.b64decode(f["data_b64"]), [0], True
    if k == "blob":
        r = random.Random(f["seed"])
        new = bytes(r.getrandbits(8) for _ in range(f["n"]))
        if f.get("keep"):   # keep the first bytes of the real file so parsing gets somewhere
            new = data[:f["keep"]] + new
        return new, [0], True
    raise ValueError("unknown fault kind %r" % k)


def apply_plan(plan, data: bytes):
    dmg = []
    eff = []
    for f in plan:
        before = len(data)
        data, d, e = apply_fault(f, data)
        # earlier damage positions that fall beyond a later truncation no longer exist
        if f["kind"] in ("truncate", "pipe_eof"):
            dmg = [x for x in dmg if x < len(data)]
        elif f["kind"] == "sector_drop" and d:
            a = d[0]
            dmg = [x if x < a else x - SECTOR for x in dmg if not (a <= x < a + SECTOR)]
        elif f["kind"] == "sector_dup" and d:
            b = d[0]
            dmg = [x if x < b else x + (len(data) - before) for x in dmg]
        elif f["kind"] in ("blob", "replace", "relength"):
            dmg = []
        elif f["kind"] == "insert" and d:
            dmg = [x if x < d[0] else x + 1 for x in dmg]
        elif f["kind"] == "delete" and d:
            dmg = [x if x < d[0] else x - 1 for x in dmg if x != d[0]]
        dmg += d
        eff.append(e)
    return data, sorted(set(dmg)), eff


HEADER_KINDS = ("magic", "size", "pal", "flag", "title", "page")


def _offset(rng, case_len, offs):
    """offs = (all structural offsets, {header kind: offsets}).  A quarter of the draws pick a
    header *kind* first (magic, size, palette, flag, title, page start) and then one of its
    bytes, so that the single magic byte is hit as often as the sixteen palette bytes."""
    allo, hdr = offs[0], offs[1]
    c = rng.random()
    if hdr and c < 0.25:
        kind = rng.choice(sorted(hdr))
        return min(rng.choice(hdr[kind]), max(0, case_len))
    if allo and c < 0.6:
        o = rng.choice(allo) + rng.choice((0, 0, 0, 1, -1, 2))
        return min(max(0, o), max(0, case_len))
    return rng.randrange(case_len + 1)


def gen_fault(rng, kind, n, offs):
    if kind in ("truncate", "pipe_eof"):
        c = rng.random()
        if c < 0.08:
            at = max(0, n - 1)
        elif c < 0.16:
            at = rng.randint(0, min(n, 24))
        else:
            at = _offset(rng, n, offs)
        return {"kind": kind, "at": at}
    if kind == "bitflip":
        return {"kind": kind, "at": _offset(rng, max(0, n - 1), offs), "bit": rng.randrange(8)}
    if kind == "set":
        # boundary values of the formats' fields: type bytes 0..4, palette size 63/64,
        # composite table 24/25, VEF group split 127..129, CM3 lines 191..193, sign bit
        v = rng.choice((0, 1, 2, 3, 4, 16, 24, 25, 0x3F, 0x40, 0x41, 0x7F, 0x80, 0x81, 191, 192, 193,
                        0xFE, 0xFF, rng.getrandbits(8), rng.getrandbits(8)))
        return {"kind": kind, "at": _offset(rng, max(0, n - 1), offs), "val": v}
    if kind == "pad":
        fill = rng.choice(("1a", "00", "rand", "block", "ff"))
        # now and then far more garbage than image: 64 KiB and 1 MiB marks
        big = rng.choice((65535, 65536, 70000, (1 << 20) + 1)) if rng.random() < 0.04 else 0
        return {"kind": kind, "n": big or rng.choice((1, 2, 5, 128, rng.randint(1, 1024))),
                "fill": fill if not big else rng.choice(("00", "ff", "1a")), "seed": rng.getrandbits(32)}
    if kind in ("sector_zero", "sector_drop", "sector_dup"):
        ns = max(1, (n + SECTOR - 1) // SECTOR)
        return {"kind": kind, "sector": rng.choice((0, ns - 1, rng.randrange(ns)))}
    if kind == "insert":
        return {"kind": kind, "at": _offset(rng, n, offs), "val": rng.choice((0, 0xFF, rng.getrandbits(8)))}
    if kind in ("delete", "swap"):
        return {"kind": kind, "at": _offset(rng, max(0, n - 1), offs)}
    if kind == "balance":
        ctrl = offs[2] if len(offs) > 2 and len(offs[2]) >= 2 else None
        if ctrl:
            i = rng.randrange(len(ctrl) - 1)
            a, b = ctrl[i], ctrl[min(len(ctrl) - 1, i + rng.choice((1, 1, 2, 5)))]
        else:
            a, b = _offset(rng, max(0, n - 1), offs), _offset(rng, max(0, n - 1), offs)
        return {"kind": kind, "a": a, "b": b, "k": rng.choice((1, 1, 2, 5, 16, 80, 160))}
    if kind == "concat":
        return {"kind": kind, "n": rng.choice((1, 2, 3, 16, 51, 162, n, rng.randint(0, max(1, n)))),
                "from": rng.choice((0, 0, _offset(rng, max(0, n - 1), offs)))}
    if kind == "blob":
        return {"kind": kind, "n": rng.choice((0, 1, 2, 5, 17, 19, 51, rng.randint(0, 4096))),
                "seed": rng.getrandbits(32), "keep": rng.choice((0, 0, 1, 2, 18, 19, 29, 51))}
    raise ValueError(kind)


def gen_plan(rng, case, enabled=None):
    """1-3 faults; swarm: each run enables a random subset of kinds."""
    kinds = list(enabled) if enabled else [k for k in KINDS if rng.random() < 0.5]
    if not kinds:
        kinds = [rng.choice(KINDS)]
    nf = rng.choice((1, 1, 1, 2, 2, 3))
    plan = []
    n = len(case.data)
    hdr = {}
    for o, k in case.smap:
        if k in HEADER_KINDS:
            hdr.setdefault(k, []).append(o)
    offs = (case.offsets(), hdr, case.offsets(("ctrl", "size")))
    weighted = [k for k in kinds for _ in range(WEIGHT.get(k, 1))]
    for _ in range(nf):
        k = rng.choice(weighted)
        if k == "blob" and plan:
            continue
        plan.append(gen_fault(rng, k, n, offs))
    return plan, kinds
