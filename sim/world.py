"""The simulated world a coco-tools process runs in.

Seams owned here (no hook in /repo is needed):
  * files by path   -> builtins.open / io.open for paths under /simfs/ resolve in SimFS
  * os.remove, os.unlink, os.path.getsize, os.path.exists, os.path.isfile -> SimFS
  * stdin / stdout  -> real io.BufferedReader / io.BufferedWriter over SimRawPipe /
                       SimRawSink whose raw chunk sizes come from a seeded schedule
  * stderr          -> captured
  * time            -> step clock: sys.monitoring JUMP events (loop back-edges) in the
                       code objects of the coco package
  * process exit    -> emulated: flush std streams, close still-open files, classify
Real code kept: argparse, CPython's buffered I/O layer, pypng, PIL, every coco module.
"""
import builtins
import hashlib
import io
import linecache
import mmap as _mmap_mod
import os
import posixpath
import random
import signal
import sys
import threading
import time
import tokenize  # noqa: F401  (imported here so it captures the *real* open)
import traceback
import types

_REAL = {
    "open": builtins.open, "io_open": io.open, "remove": os.remove, "unlink": os.unlink,
    "getsize": os.path.getsize, "exists": os.path.exists, "isfile": os.path.isfile,
    "os_open": os.open, "os_close": os.close, "os_read": os.read, "os_write": os.write,
    "os_lseek": os.lseek, "os_fstat": os.fstat, "os_stat": os.stat, "os_isatty": os.isatty,
    "os_fsync": os.fsync, "os_ftruncate": os.ftruncate, "FileIO": io.FileIO,
    "os_rename": os.rename, "os_replace": os.replace, "isdir": os.path.isdir,
    "os_makedirs": os.makedirs, "os_listdir": os.listdir,
    "os_getcwd": os.getcwd, "os_getcwdb": os.getcwdb, "os_chdir": os.chdir,
    "os_lstat": os.lstat, "os_chmod": os.chmod, "os_access": os.access, "os_utime": os.utime,
    "islink": os.path.islink, "os__exit": os._exit, "sleep": time.sleep,
    "thread_start": threading.Thread.start, "mmap": _mmap_mod.mmap, "scandir": os.scandir,
    "readlink": os.readlink,
}
NAME_MAX = 255
DEV_STD = {"/dev/stdin": 0, "/dev/fd/0": 0, "/proc/self/fd/0": 0,
           "/dev/stdout": 1, "/dev/fd/1": 1, "/proc/self/fd/1": 1}
SLEEP_BUDGET = 600.0     # simulated seconds a tool may spend blocked before it counts as hung
WALL_BACKSTOP = 45       # real seconds; the slowest legitimate run takes about 1 s unloaded
FAKE_FD_BASE = 1_000_000   # never a valid real descriptor: a stray real syscall gets EBADF

SIMROOT = "/simfs/"
VCWD = "/simfs/cwd/"      # the (empty) working directory of the simulated process
TOOL_ID = 4  # sys.monitoring tool id (0 debugger, 1 coverage, 2 profiler, 5 optimizer)


class StepBudgetExceeded(BaseException):
    """Raised by the step clock.  BaseException so `except Exception` cannot eat it;
    it is re-raised on every further back-edge so `except BaseException` cannot either."""


class HardExit(BaseException):
    """os._exit() inside the simulated process: ends it at once, buffers are NOT flushed."""

    def __init__(self, code):
        super().__init__(code)
        self.code = code


class HarnessError(Exception):
    """The simulator itself misbehaved (never a VIOLATION, never exit 0)."""


# --------------------------------------------------------------------------- events
class EventLog:
    """Stream events folded into a running SHA-256 (never draws from a PRNG).  Runs of
    identical events are folded as (event, count) so a tool spinning at EOF stays cheap."""

    def __init__(self):
        self._h = hashlib.sha256()
        self.n = 0
        self.counts = {}
        self._last = None
        self._rep = 0

    def _flush(self):
        if self._last is not None:
            self._h.update(("%s|%s|%d|%d*%d;" % (self._last + (self._rep,))).encode())
            k = self._last[0] + "." + self._last[1]
            self.counts[k] = self.counts.get(k, 0) + self._rep

    def add(self, stream, op, requested, returned):
        ev = (stream, op, requested, returned)
        self.n += 1
        if ev == self._last:
            self._rep += 1
            return
        self._flush()
        self._last = ev
        self._rep = 1

    def hexdigest(self):
        self._flush()
        self._last = None
        self._rep = 0
        return self._h.hexdigest()


# --------------------------------------------------------------------------- chunks
CHUNK_KINDS = ("whole", "one", "tiny", "small", "page", "mixed", "boundary")


class ChunkSchedule:
    """Seeded sequence of raw-transfer sizes for a pipe end."""

    def __init__(self, kind: str, seed: int, boundaries=()):
        if kind not in CHUNK_KINDS:
            raise HarnessError("unknown chunk kind %r" % kind)
        self.kind = kind
        self.seed = seed
        self._rng = random.Random(seed)
        self._bounds = sorted(set(int(b) for b in boundaries if b > 0))

    def next(self, pos: int) -> int:
        k = self.kind
        r = self._rng
        if k == "whole":
            return 1 << 62      # no limit: a blocking descriptor takes or gives everything asked
        if k == "one":
            return 1
        if k == "tiny":
            return r.randint(1, 7)
        if k == "small":
            return r.randint(1, 300)
        if k == "page":
            return r.choice((512, 4096, 65536))
        if k == "mixed":
            c = r.random()
            if c < 0.3:
                return 1
            if c < 0.6:
                return r.randint(2, 64)
            if c < 0.9:
                return r.randint(65, 9000)
            return 65536
        # boundary: deliver exactly up to the next structural boundary
        for b in self._bounds:
            if b > pos:
                return b - pos
        return r.randint(1, 4096)

    def describe(self):
        return {"kind": self.kind, "seed": self.seed}


# --------------------------------------------------------------------------- raw ends
class SimRawPipe(io.RawIOBase):
    """Read end of a pipe: each raw read returns a scheduler-chosen number of bytes;
    EOF when the (possibly crashed) upstream writer's bytes are exhausted."""

    def __init__(self, data: bytes, sched: ChunkSchedule, log: EventLog, name="<stdin>"):
        super().__init__()
        self._data = bytes(data)
        self._pos = 0
        self._sched = sched
        self._log = log
        self.name = name
        self.mode = "rb"
        self.raw_reads = 0

    def readable(self):
        return True

    def fileno(self):
        if self.name != "<stdin>":
            raise io.UnsupportedOperation("fileno")
        return 0

    def isatty(self):
        return False

    def readinto(self, b):
        want = len(b)
        left = len(self._data) - self._pos
        n = min(want, left)
        if n > 0:
            n = max(1, min(n, self._sched.next(self._pos)))
            b[:n] = self._data[self._pos:self._pos + n]
            self._pos += n
        self.raw_reads += 1
        self._log.add(self.name, "r", want, n)
        return n


class SimRawSink(io.RawIOBase):
    """Write end of a pipe: raw writes may be partial (scheduler-chosen)."""

    def __init__(self, sched: ChunkSchedule, log: EventLog, name="<stdout>"):
        super().__init__()
        self.data = bytearray()
        self._sched = sched
        self._log = log
        self.name = name
        self.mode = "wb"
        self.raw_writes = 0

    def writable(self):
        return True

    def fileno(self):
        return 1

    def isatty(self):
        return False

    def write(self, b):
        want = len(b)
        n = want
        if n > 0:
            n = max(1, min(n, self._sched.next(len(self.data))))
            self.data += bytes(b[:n])
        self.raw_writes += 1
        self._log.add(self.name, "w", want, n)
        return n


class SimRawFile(io.RawIOBase):
    """A regular file in SimFS.  Regular-file reads are never short before EOF."""

    def __init__(self, fs, path, name, readable, writable, append=False):
        super().__init__()
        self._fs = fs
        self._path = path
        self._alias = fs.alias(path)
        self.name = name
        self._readable = readable
        self._writable = writable
        self._pos = len(fs.files[path]) if append else 0
        self.mode = ("rb+" if readable and writable else "wb" if writable else "rb")

    def readable(self):
        return self._readable

    def writable(self):
        return self._writable

    def seekable(self):
        return True

    def _buf(self):
        try:
            return self._fs.files[self._path]
        except KeyError:  # unlinked while open: keep an orphan buffer
            return self._fs.orphans.setdefault(id(self), bytearray())

    def readinto(self, b):
        if not self._readable:
            raise io.UnsupportedOperation("not readable")
        data = self._buf()
        n = max(0, min(len(b), len(data) - self._pos))
        b[:n] = data[self._pos:self._pos + n]
        self._pos += n
        self._fs.log.add(self._alias, "r", len(b), n)
        return n

    def write(self, b):
        if not self._writable:
            raise io.UnsupportedOperation("not writable")
        data = self._buf()
        n = len(b)
        if self._pos > len(data):
            data.extend(b"\0" * (self._pos - len(data)))
        data[self._pos:self._pos + n] = bytes(b)
        self._pos += n
        self._fs.log.add(self._alias, "w", n, n)
        return n

    def seek(self, off, whence=0):
        if whence == 0:
            p = off
        elif whence == 1:
            p = self._pos + off
        elif whence == 2:
            p = len(self._buf()) + off
        else:
            raise ValueError("bad whence")
        if p < 0:
            raise OSError(22, "Invalid argument")
        self._pos = p
        return p

    def tell(self):
        return self._pos

    def truncate(self, size=None):
        if size is None:
            size = self._pos
        data = self._buf()
        if size < len(data):
            del data[size:]
        else:
            data.extend(b"\0" * (size - len(data)))
        return size


class TracedReader:
    """Thin proxy over the *real* BufferedReader.  It only observes: the logical
    position, the first short read and the first read that consumes a damaged byte,
    each with the calling source line (taken only when the anomaly happens)."""

    def __init__(self, buf, label, damaged=()):
        self._buf = buf
        self._label = label
        self.pos = 0
        self.app_reads = 0
        self.short = None      # (func, line_text, requested, returned, at_pos)
        self.dmg_site = None   # (func, line_text, at_pos)
        dm = sorted(damaged)
        self._dmg = dm
        self._next_dmg = dm[0] if dm else None

    @staticmethod
    def _site(depth=2):
        f = sys._getframe(depth)
        # skip frames of this module / the io layer
        while f is not None and (f.f_code.co_filename == __file__):
            f = f.f_back
        if f is None:
            return ("?", "?")
        txt = linecache.getline(f.f_code.co_filename, f.f_lineno).strip()
        return (f.f_code.co_name, txt)

    def read(self, n=-1):
        data = self._buf.read(n)
        ln = len(data)
        p = self.pos
        self.pos = p + ln
        self.app_reads += 1
        if n is not None and n >= 0 and ln < n and self.short is None:
            fn, txt = self._site()
            self.short = (fn, txt, n, ln, p)
        nd = self._next_dmg
        if nd is not None and self.pos > nd and self.dmg_site is None:
            fn, txt = self._site()
            self.dmg_site = (fn, txt, p)
        return data

    def consumed_damage(self):
        return bool(self._dmg) and self.pos > self._dmg[0]

    @property
    def name(self):
        return self._buf.name

    @property
    def closed(self):
        return self._buf.closed

    def close(self):
        self._buf.close()

    def __enter__(self):
        return self

    def __exit__(self, *a):
        self.close()

    def __iter__(self):
        return iter(self._buf)

    def __getattr__(self, k):
        return getattr(self._buf, k)


class _DirEntry:
    def __init__(self, world, name, path, vpath):
        self._w, self.name, self.path, self._vp = world, name, path, vpath

    def is_dir(self, follow_symlinks=True):
        return self._vp not in self._w.fs.files and self._w._isdir(self._vp)

    def is_file(self, follow_symlinks=True):
        return self._vp in self._w.fs.files

    def is_symlink(self):
        return False

    def stat(self, follow_symlinks=True):
        return self._w._os_stat(self._vp)

    def inode(self):
        return self.stat().st_ino

    def __fspath__(self):
        return self.path


class _ScanDir:
    def __init__(self, entries):
        self._it = iter(entries)

    def __iter__(self):
        return self

    def __next__(self):
        return next(self._it)

    def __enter__(self):
        return self

    def __exit__(self, *a):
        return False

    def close(self):
        pass


class SimMmap:
    """The two faces of an mmap object: a bytes-like sequence and a file-like reader."""

    def __init__(self, data):
        self._d = data
        self._pos = 0
        self.closed = False

    def __len__(self):
        return len(self._d)

    def __getitem__(self, i):
        return self._d[i]

    def __iter__(self):
        return iter(self._d)

    def read(self, n=None):
        if n is None or n < 0:
            n = len(self._d) - self._pos
        out = self._d[self._pos:self._pos + n]
        self._pos += len(out)
        return out

    def read_byte(self):
        if self._pos >= len(self._d):
            raise ValueError("read byte out of range")
        self._pos += 1
        return self._d[self._pos - 1]

    def readline(self):
        i = self._d.find(b"\n", self._pos)
        end = len(self._d) if i < 0 else i + 1
        out = self._d[self._pos:end]
        self._pos = end
        return out

    def seek(self, pos, whence=0):
        self._pos = pos if whence == 0 else self._pos + pos if whence == 1 else len(self._d) + pos
        return self._pos

    def tell(self):
        return self._pos

    def size(self):
        return len(self._d)

    def find(self, sub, *a):
        return self._d.find(sub, *a)

    def close(self):
        self.closed = True

    def flush(self, *a):
        return None

    def madvise(self, *a):
        return None

    def __enter__(self):
        return self

    def __exit__(self, *a):
        self.close()


class _StdinShell:
    """What the tools touch of sys.stdin: `.buffer` (and a few harmless attributes)."""

    def __init__(self, buffer):
        self.buffer = buffer
        self.name = "<stdin>"
        self.mode = "r"
        self.encoding = "utf-8"

    def isatty(self):
        return False

    def fileno(self):
        return 0

    def read(self, *a):
        return self.buffer.read(*a).decode("utf-8", "replace")

    def readline(self, *a):
        return self.buffer.readline(*a).decode("utf-8", "replace")

    @property
    def closed(self):
        return self.buffer.closed

    def close(self):
        self.buffer.close()

    def flush(self):
        pass


# --------------------------------------------------------------------------- SimFS
class SimFS:
    def __init__(self):
        self.files = {}     # normalised path -> bytearray
        self.orphans = {}
        self.handles = []   # buffered objects still to be closed at "exit"
        self.readers = {}   # path -> [TracedReader]
        self.damaged = {}   # path -> iterable of damaged offsets
        self.removed = []   # paths removed by the tool
        self.aliases = {}       # path -> "f<k>" in order of first use (temp names may be random)
        self.modes = {}         # path -> permission bits set by the tool
        self.fifos = {}         # path -> (bytes, ChunkSchedule, damaged offsets): named pipes
        self.symlinks = {}      # path -> target path
        self.whiteouts = set()  # real paths the tool "removed" (the real file is never touched)
        self.misses = []        # paths below the working directory the tool looked for in vain
        self.dirs = set()       # directories the tool created
        self.log = EventLog()

    @staticmethod
    def is_sim(path):
        try:
            p = os.fspath(path)
        except TypeError:
            return False
        if isinstance(p, bytes):
            p = p.decode("utf-8", "surrogateescape")
        return p.startswith(SIMROOT)

    @staticmethod
    def norm(path):
        p = os.fspath(path)
        if isinstance(p, bytes):
            p = p.decode("utf-8", "surrogateescape")
        return p

    def alias(self, path):
        a = self.aliases.get(path)
        if a is None:
            a = self.aliases[path] = "f%d" % len(self.aliases)
        return a

    def put(self, path, data, damaged=()):
        self.files[path] = bytearray(data)
        if damaged:
            self.damaged[path] = list(damaged)

    def get(self, path):
        d = self.files.get(path)
        return None if d is None else bytes(d)

    def exists(self, path, vpath=None):
        p = vpath or self.norm(path)
        if p in self.files or p in self.fifos:
            return True
        pre = p.rstrip("/") + "/"
        return any(k.startswith(pre) for k in self.files) or p.rstrip("/") + "/" == SIMROOT

    def open(self, file, mode="r", buffering=-1, encoding=None, errors=None, newline=None,
             closefd=True, opener=None, vpath=None):
        path = vpath or self.norm(file)
        name = file if isinstance(file, str) else self.norm(file)
        m = set(mode)
        binary = "b" in m
        plus = "+" in m
        kinds = m & set("rwax")
        if len(kinds) != 1 or (m - set("rwaxbt+")) or ("b" in m and "t" in m):
            raise ValueError("invalid mode: %r" % mode)
        kind = kinds.pop()
        if binary and encoding is not None:
            raise ValueError("binary mode doesn't take an encoding argument")
        if path in self.fifos and kind == "r" and not plus:
            data, sched, dmg = self.fifos[path]
            raw = SimRawPipe(data, sched, self.log, name=name)
            buf = io.BufferedReader(raw)
            self.handles.append(buf)
            if not binary:
                txt = io.TextIOWrapper(buf, encoding=io.text_encoding(encoding), errors=errors, newline=newline)
                self.handles.append(txt)
                return txt
            tr = TracedReader(buf, path, dmg)
            self.readers.setdefault(path, []).append(tr)
            return tr
        if kind == "r":
            if path not in self.files:
                raise FileNotFoundError(2, "No such file or directory", name)
        elif kind == "x":
            if path in self.files:
                raise FileExistsError(17, "File exists", name)
            self.files[path] = bytearray()
        elif kind == "w":
            self.files[path] = bytearray()
        elif kind == "a":
            self.files.setdefault(path, bytearray())
        self.whiteouts.discard(path)
        readable = kind == "r" or plus
        writable = kind != "r" or plus
        raw = SimRawFile(self, path, name, readable, writable, append=(kind == "a"))
        if readable and writable:
            buf = io.BufferedRandom(raw)
        elif writable:
            buf = io.BufferedWriter(raw)
        else:
            buf = io.BufferedReader(raw)
        self.handles.append(buf)
        if not binary:
            enc = io.text_encoding(encoding)
            txt = io.TextIOWrapper(buf, encoding=enc, errors=errors, newline=newline)
            txt.mode = mode
            self.handles.append(txt)
            return txt
        if readable and not writable:
            tr = TracedReader(buf, path, self.damaged.get(path, ()))
            self.readers.setdefault(path, []).append(tr)
            return tr
        return buf

    def remove(self, path, vpath=None):
        p = vpath or self.norm(path)
        if p not in self.files:
            raise FileNotFoundError(2, "No such file or directory", path)
        del self.files[p]
        self.removed.append(p)


# --------------------------------------------------------------------------- step clock
class StepClock:
    """Counts loop back-edges (sys.monitoring JUMP events) in the given code objects."""

    def __init__(self):
        self.count = 0
        self.budget = 1 << 62
        self.exceeded = False
        self._codes = []
        self._installed = False

    def _cb(self, code, off, dest):
        self.count += 1
        if self.count > self.budget:
            self.exceeded = True
            raise StepBudgetExceeded(self.count)

    def install(self, codes):
        mon = sys.monitoring
        if mon.get_tool(TOOL_ID) is None:
            mon.use_tool_id(TOOL_ID, "verif-step-clock")
        mon.register_callback(TOOL_ID, mon.events.JUMP, self._cb)
        self._codes = list(codes)
        for c in self._codes:
            mon.set_local_events(TOOL_ID, c, mon.events.JUMP)
        self._installed = True

    def uninstall(self):
        if not self._installed:
            return
        mon = sys.monitoring
        for c in self._codes:
            mon.set_local_events(TOOL_ID, c, 0)
        mon.register_callback(TOOL_ID, mon.events.JUMP, None)
        self._installed = False


def _walk_code(co, out, seen):
    if id(co) in seen:
        return
    seen.add(id(co))
    out.append(co)
    for k in co.co_consts:
        if isinstance(k, types.CodeType):
            _walk_code(k, out, seen)


def code_objects_of(modules):
    """Every code object defined in the given modules (functions, methods, nested)."""
    out, seen = [], set()
    for m in modules:
        for v in list(vars(m).values()):
            if isinstance(v, types.FunctionType) and v.__module__ == m.__name__:
                _walk_code(v.__code__, out, seen)
            elif isinstance(v, type) and v.__module__ == m.__name__:
                for w in list(vars(v).values()):
                    f = w
                    if isinstance(w, (staticmethod, classmethod)):
                        f = w.__func__
                    elif isinstance(w, property):
                        for g in (w.fget, w.fset, w.fdel):
                            if isinstance(g, types.FunctionType):
                                _walk_code(g.__code__, out, seen)
                        continue
                    if isinstance(f, types.FunctionType):
                        _walk_code(f.__code__, out, seen)
    return out


# --------------------------------------------------------------------------- world
class World:
    """Context manager that installs every seam, and removes it again."""

    def __init__(self, stdin_data=None, stdin_sched=None, stdout_sched=None, stdin_damaged=(),
                 vcwd=None, stdout_unbuffered=False, environ=None, stdin_file=None, tty=False,
                 stdout_encoding="utf-8"):
        self.fs = SimFS()
        self.vcwd = (vcwd or VCWD).rstrip("/") + "/"
        self.log = self.fs.log
        self.stdin_sched = stdin_sched or ChunkSchedule("whole", 0)
        self.stdout_sched = stdout_sched or ChunkSchedule("whole", 0)
        self.stdin_data = stdin_data
        self.stdin_is_file = stdin_file is not None
        if stdin_file is not None:
            # `tool - < file`, possibly with the descriptor already advanced:
            # stdin is a seekable regular file positioned at `start`
            content, start = stdin_file
            self.fs.files["/simfs/.stdin-redirect"] = bytearray(content)
            self.stdin_raw = SimRawFile(self.fs, "/simfs/.stdin-redirect", "<stdin>", True, False)
            self.stdin_raw._pos = start
            self.stdin_raw.raw_reads = 0
            self.stdin_raw.fileno = lambda: 0
            self.stdin_buf = TracedReader(io.BufferedReader(self.stdin_raw), "<stdin>",
                                          [start + d for d in stdin_damaged])
            self.stdin_buf.pos = 0
        else:
            self.stdin_raw = SimRawPipe(stdin_data if stdin_data is not None else b"",
                                        self.stdin_sched, self.log)
            self.stdin_buf = TracedReader(io.BufferedReader(self.stdin_raw), "<stdin>", stdin_damaged)
        if stdout_unbuffered:
            # python -u / PYTHONUNBUFFERED=1: sys.stdout.buffer IS the raw file; a blocking
            # descriptor takes every write whole
            self.stdout_sched = ChunkSchedule("whole", 0)
        self.stdout_raw = SimRawSink(self.stdout_sched, self.log)
        self.stdout_buf = self.stdout_raw if stdout_unbuffered else io.BufferedWriter(self.stdout_raw)
        self.stdout_txt = io.TextIOWrapper(self.stdout_buf, encoding=stdout_encoding, newline="\n",
                                           write_through=stdout_unbuffered)
        self.stdout_txt.mode = "w"
        self.stderr = io.StringIO()
        self.clock = StepClock()
        self._saved = None
        self.slept = 0.0
        self.tty = bool(tty)
        if self.tty:
            self.stdout_raw.isatty = lambda: True
            self.stdin_raw.isatty = lambda: True
        self.threads_started = 0
        self.environ = dict(environ or {})
        self._env_saved = {}
        self.fds = {}            # fake descriptor -> SimRawFile (os.open on SimFS paths)
        self._next_fd = FAKE_FD_BASE

    # descriptor-level seam ---------------------------------------------------
    def _raw_of(self, fd):
        if fd == 0:
            return self.stdin_raw
        if fd == 1:
            return self.stdout_raw
        return self.fds.get(fd)

    def _os_open(self, path, flags, mode=0o777, *a, **kw):
        try:
            dev = DEV_STD.get(posixpath.normpath(SimFS.norm(path)))
        except TypeError:
            dev = None
        if dev is not None:
            return dev          # /dev/stdout and friends: the process's own descriptor
        writing = bool(flags & (os.O_WRONLY | os.O_RDWR | os.O_CREAT | os.O_TRUNC | os.O_APPEND))
        p = self._vpath(path, writing)
        if p is None:
            return _REAL["os_open"](path, flags, mode, *a, **kw)
        fs = self.fs
        if p in fs.whiteouts and not flags & os.O_CREAT:
            raise FileNotFoundError(2, "No such file or directory", path)
        if p not in fs.files and not p.startswith(SIMROOT) and _REAL["isfile"](p) \
                and p not in fs.whiteouts and not flags & os.O_TRUNC:
            with _REAL["open"](p, "rb") as f:      # copy-up
                fs.files[p] = bytearray(f.read())
        fs.whiteouts.discard(p)
        if p in fs.files:
            if flags & os.O_CREAT and flags & os.O_EXCL:
                raise FileExistsError(17, "File exists", path)
        elif flags & os.O_CREAT:
            fs.files[p] = bytearray()
        else:
            raise FileNotFoundError(2, "No such file or directory", path)
        acc = flags & (os.O_WRONLY | os.O_RDWR)
        if flags & os.O_TRUNC and acc:
            fs.files[p] = bytearray()
        raw = SimRawFile(fs, p, path if isinstance(path, str) else p,
                         readable=acc != os.O_WRONLY, writable=bool(acc),
                         append=bool(flags & os.O_APPEND))
        fd = self._next_fd
        self._next_fd += 1
        raw._fd = fd
        self.fds[fd] = raw
        return fd

    def _os_close(self, fd):
        if fd in self.fds:
            self.fds.pop(fd)
            return None
        if fd in (0, 1, 2):
            return None
        return _REAL["os_close"](fd)

    def _os_read(self, fd, n):
        raw = self._raw_of(fd)
        if raw is None:
            return _REAL["os_read"](fd, n)
        buf = bytearray(n)
        got = raw.readinto(buf)
        return bytes(buf[:got or 0])

    def _os_write(self, fd, data):
        if fd == 2:
            self.stderr.write(bytes(data).decode("utf-8", "replace"))
            return len(data)
        raw = self._raw_of(fd)
        if raw is None:
            return _REAL["os_write"](fd, data)
        return raw.write(data)

    def _os_lseek(self, fd, pos, how):
        raw = self.fds.get(fd)
        if raw is not None:
            return raw.seek(pos, how)
        if fd == 0 and self.stdin_is_file:
            return self.stdin_raw.seek(pos, how)
        if fd in (0, 1, 2):
            raise OSError(29, "Illegal seek")
        return _REAL["os_lseek"](fd, pos, how)

    def _stat_result(self, size, fifo=False, path=None):
        import stat
        mode = (stat.S_IFIFO | 0o600) if fifo else (stat.S_IFREG | self.fs.modes.get(path, 0o644))
        # one inode per path (os.path.samefile compares st_ino/st_dev)
        ino = 1000 + int(self.fs.alias(path)[1:]) if path else 1
        return os.stat_result((mode, ino, 0x51F5, 1, 0, 0, size, 0, 0, 0))

    def _os_chmod(self, path, mode, *a, **kw):
        if isinstance(path, int):
            raw = self.fds.get(path)
            if raw is not None:
                self.fs.modes[raw._path] = mode & 0o7777
                return None
            return _REAL["os_chmod"](path, mode, *a, **kw)
        vp = self._vpath(path)
        if vp is None:
            self.fs.modes[posixpath.normpath(SimFS.norm(path))] = mode & 0o7777   # never the real file
            return None
        if vp not in self.fs.files:
            raise FileNotFoundError(2, "No such file or directory", path)
        self.fs.modes[vp] = mode & 0o7777
        return None

    def _os_access(self, path, mode, *a, **kw):
        vp = self._vpath(path)
        if vp is None:
            return _REAL["os_access"](path, mode, *a, **kw)
        return vp in self.fs.files or self._isdir(path)

    def _os_utime(self, path, *a, **kw):
        vp = self._vpath(path, writing=True)
        if vp in self.fs.files or _REAL["exists"](vp):
            return None
        raise FileNotFoundError(2, "No such file or directory", path)

    def _scandir(self, path="."):
        if isinstance(path, int):
            return _REAL["scandir"](path)
        p = self._vpath(path, writing=True).rstrip("/") + "/"
        if not (p.startswith(SIMROOT) or any(k.startswith(p) for k in self.fs.files)):
            return _REAL["scandir"](path)
        base = os.fspath(path)
        names = self._os_listdir(path)
        return _ScanDir([_DirEntry(self, n, (base.rstrip("/") + "/" + n) if base not in (".", "") else n, p + n)
                         for n in names])

    def _mmap(self, fileno, length=0, *a, **kw):
        """mmap of a simulated regular file: always the WHOLE file from byte 0, whatever the
        descriptor's current offset (as the real call does); pipes cannot be mapped."""
        raw = self.stdin_raw if (fileno == 0 and self.stdin_is_file) else self.fds.get(fileno)
        if raw is None:
            if fileno in (0, 1, 2):
                raise OSError(19, "No such device")
            return _REAL["mmap"](fileno, length, *a, **kw)
        data = bytes(raw._buf())
        if not data:
            raise ValueError("cannot mmap an empty file")
        return SimMmap(data if not length else data[:length])

    def _sleep(self, secs):
        """Discrete-event time: sleeping costs nothing real; past the budget the tool is hung."""
        self.slept += max(0.0, float(secs))
        if self.slept > SLEEP_BUDGET:
            self.clock.exceeded = True
            raise StepBudgetExceeded("slept %.0f simulated seconds" % self.slept)

    def _os__exit(self, code=0):
        raise HardExit(code)

    def _islink(self, path):
        try:
            vp = self._vpath(path, follow=False)
        except Exception:
            return False
        if vp is None:
            return _REAL["islink"](path)
        return vp in self.fs.symlinks

    def _os_lstat(self, path, *a, **kw):
        try:
            vp = self._vpath(path, follow=False)
        except Exception:
            vp = None
        if vp is not None and vp in self.fs.symlinks:
            import stat
            return os.stat_result((stat.S_IFLNK | 0o777, 2000 + len(vp), 0x51F5, 1, 0, 0,
                                   len(self.fs.symlinks[vp].encode()), 0, 0, 0))
        return self._os_stat(path, *a, **kw)

    def _readlink(self, path, *a, **kw):
        vp = self._vpath(path, follow=False)
        if vp is not None and vp in self.fs.symlinks:
            return self.fs.symlinks[vp]
        if vp is None:
            return _REAL["readlink"](path, *a, **kw)
        raise OSError(22, "Invalid argument", path)

    def _os_fstat(self, fd):
        if fd == 0 and self.stdin_is_file:
            return self._stat_result(len(self.stdin_raw._buf()), path="/simfs/.stdin-redirect")
        if fd in (0, 1, 2):
            return self._stat_result(0, fifo=True)
        raw = self.fds.get(fd)
        if raw is not None:
            return self._stat_result(len(raw._buf()), path=raw._path)
        return _REAL["os_fstat"](fd)

    def _os_stat(self, path, *a, **kw):
        if isinstance(path, int):
            return self._os_fstat(path)
        try:
            dev = DEV_STD.get(posixpath.normpath(SimFS.norm(path)))
        except TypeError:
            dev = None
        if dev is not None:
            return self._os_fstat(dev)
        try:
            vp = self._vpath(path)
        except Exception:
            vp = None
        if vp is None:
            return _REAL["os_stat"](path, *a, **kw)
        if vp in self.fs.fifos:
            return self._stat_result(0, fifo=True, path=vp)
        d = self.fs.files.get(vp)
        if d is not None:
            return self._stat_result(len(d), path=vp)
        if self._isdir(path):
            import stat
            return os.stat_result((stat.S_IFDIR | 0o755, 1, 1, 1, 0, 0, 0, 0, 0, 0))
        raise FileNotFoundError(2, "No such file or directory", path)

    def _os_isatty(self, fd):
        if fd in (0, 1, 2):
            return self.tty
        if fd in self.fds:
            return False
        return _REAL["os_isatty"](fd)

    def _os_fsync(self, fd):
        if fd in (0, 1, 2) or fd in self.fds:
            return None
        return _REAL["os_fsync"](fd)

    def _os_ftruncate(self, fd, size):
        raw = self.fds.get(fd)
        if raw is not None:
            raw.truncate(size)
            return None
        return _REAL["os_ftruncate"](fd, size)

    def _os_rename(self, src, dst, *a, **kw):
        s_ = self._vpath(src, writing=True)
        d_ = self._vpath(dst, writing=True)
        if s_ not in self.fs.files:
            if s_ in self.fs.whiteouts or s_.startswith(SIMROOT) or not _REAL["isfile"](s_):
                raise FileNotFoundError(2, "No such file or directory", src)
            with _REAL["open"](s_, "rb") as f:      # renaming a real file: copy-up + whiteout
                self.fs.files[s_] = bytearray(f.read())
        self.fs.files[d_] = self.fs.files.pop(s_)
        if not s_.startswith(SIMROOT):
            self.fs.whiteouts.add(s_)
        self.fs.whiteouts.discard(d_)
        return None

    def _isdir(self, path):
        try:
            p = self._vpath(path, writing=True).rstrip("/") + "/"
        except Exception:
            return False
        if p in (SIMROOT, VCWD, self.vcwd) or self.vcwd.startswith(p) or p in self.fs.dirs \
                or any(k.startswith(p) for k in self.fs.files):
            return True
        if p.startswith(SIMROOT):
            return False
        return _REAL["isdir"](path)

    def _os_getcwd(self):
        return self.vcwd.rstrip("/") or "/"

    def _os_chdir(self, path):
        p = self._vpath(path, writing=True).rstrip("/") + "/"
        if not self._isdir(p):
            raise FileNotFoundError(2, "No such file or directory", path)
        self.vcwd = p

    def _os_makedirs(self, path, *a, **kw):
        self.fs.dirs.add(self._vpath(path, writing=True).rstrip("/") + "/")
        return None

    def _os_listdir(self, path="."):
        if isinstance(path, int):
            return _REAL["os_listdir"](path)
        p = self._vpath(path, writing=True).rstrip("/") + "/"
        names = set(k[len(p):].split("/")[0] for k in self.fs.files if k.startswith(p))
        if not p.startswith(SIMROOT) and _REAL["isdir"](p):
            names |= set(n for n in _REAL["os_listdir"](p) if p + n not in self.fs.whiteouts)
        return sorted(names)

    def _fileio(self, file, mode="r", closefd=True, opener=None):
        """io.FileIO as the tools can reach it: descriptors 0/1, fake descriptors and
        SimFS paths resolve in the simulation."""
        if isinstance(file, int):
            raw = self._raw_of(file)
            if raw is not None:
                return raw
            if file == 2:
                raise HarnessError("tool opened descriptor 2 as a raw file")
            return _REAL["FileIO"](file, mode, closefd, opener)
        writing = bool(set(mode) & set("wax+"))
        vp = self._vpath(file, writing)
        if vp is not None:
            b = self.fs.open(file, mode.replace("b", "") + "b", vpath=vp)
            return getattr(b, "raw", None) or b._buf.raw
        return _REAL["FileIO"](file, mode, closefd, opener)

    def _open_fd(self, fd, mode, buffering=-1, encoding=None, errors=None, newline=None,
                 closefd=True, opener=None):
        raw = self._raw_of(fd)
        if raw is None:
            if fd == 2:
                raise HarnessError("tool opened descriptor 2")
            return _REAL["open"](fd, mode, buffering, encoding, errors, newline, closefd, opener)
        binary = "b" in mode
        if buffering == 0:
            if not binary:
                raise ValueError("can't have unbuffered text I/O")
            return raw
        if raw.readable() and raw.writable():
            buf = io.BufferedRandom(raw)
        elif raw.writable():
            buf = io.BufferedWriter(raw)
        else:
            buf = io.BufferedReader(raw)
        self.fs.handles.append(buf)
        if binary:
            return buf
        txt = io.TextIOWrapper(buf, encoding=io.text_encoding(encoding), errors=errors,
                               newline=newline)
        self.fs.handles.append(txt)
        return txt

    # patched entry points ------------------------------------------------
    # The simulated file system is an overlay: every write lands in SimFS (the real disk is
    # never touched), reads see SimFS first and the real disk (read-only) behind it, and
    # relative paths live in an empty virtual working directory.
    def _vpath(self, path, writing=False, follow=True):
        """Virtual path if SimFS must serve `path`, else None (real, read-only)."""
        p = SimFS.norm(path)
        if any(len(c.encode("utf-8", "surrogateescape")) > NAME_MAX for c in p.split("/")):
            raise OSError(36, "File name too long", path)
        if not posixpath.isabs(p):
            p = posixpath.normpath(self.vcwd + p)
        p = posixpath.normpath(p)
        for _ in range(8):                      # follow symbolic links (final component)
            if follow and p in self.fs.symlinks:
                p = posixpath.normpath(posixpath.join(posixpath.dirname(p), self.fs.symlinks[p]))
            else:
                break
        if not writing and p.startswith(self.vcwd) and p not in self.fs.files \
                and p not in self.fs.fifos and p not in self.fs.symlinks and p not in self.fs.dirs \
                and p not in self.fs.misses and len(self.fs.misses) < 64:
            # passive log (the C12 simulator may let such a file appear in another process)
            self.fs.misses.append(p)
        if writing or p.startswith(SIMROOT) or p in self.fs.files or p in self.fs.whiteouts \
                or p in self.fs.fifos or p in self.fs.symlinks:
            return p
        return None

    def _open(self, file, mode="r", *a, **kw):
        if isinstance(file, int) and not isinstance(file, bool):
            return self._open_fd(file, mode, *a, **kw)
        try:
            dev = DEV_STD.get(posixpath.normpath(SimFS.norm(file)))
        except TypeError:
            dev = None
        if dev is not None:
            # /dev/stdin, /dev/stdout, /dev/fd/N name the process's own standard streams
            f = self._open_fd(dev, mode, *a, **{k: v for k, v in kw.items() if k != "opener"})
            try:
                f.name = file
            except Exception:
                pass
            if dev == 0 and "b" in mode and not set(mode) & set("wax+"):
                tr = TracedReader(f, "<stdin>", self.stdin_buf._dmg)
                return tr
            return f
        writing = bool(set(mode) & set("wax+"))
        opener = kw.get("opener")
        if opener is None and len(a) >= 6:
            opener = a[5]
        if opener is not None:
            # e.g. tempfile: the opener returns a descriptor (ours, if it went through os.open)
            m = set(mode)
            flags = (os.O_RDWR if "+" in m else os.O_WRONLY if writing else os.O_RDONLY)
            if "w" in m:
                flags |= os.O_CREAT | os.O_TRUNC
            elif "x" in m:
                flags |= os.O_CREAT | os.O_EXCL
            elif "a" in m:
                flags |= os.O_CREAT | os.O_APPEND
            fd = opener(file, flags)
            kw2 = {k: v for k, v in kw.items() if k != "opener"}
            f = self._open_fd(fd, mode, *a[:5], **kw2)
            try:
                f.name = file
            except Exception:
                pass
            return f
        vp = self._vpath(file, writing)
        if vp is None:
            return _REAL["open"](file, mode, *a, **kw)
        if vp in self.fs.whiteouts and not writing:
            raise FileNotFoundError(2, "No such file or directory", file)
        if "+" in mode and "r" in mode and vp not in self.fs.files and not vp.startswith(SIMROOT) \
                and _REAL["isfile"](vp):
            with _REAL["open"](vp, "rb") as f:      # copy-up for r+
                self.fs.files[vp] = bytearray(f.read())
        return self.fs.open(file, mode, *a, vpath=vp, **kw)

    def _remove(self, path, *a, **kw):
        try:
            lp = self._vpath(path, follow=False)
            if lp in self.fs.symlinks:
                del self.fs.symlinks[lp]          # unlink removes the link, not its target
                self.fs.removed.append(lp)
                return None
        except TypeError:
            pass
        try:
            if DEV_STD.get(posixpath.normpath(SimFS.norm(path))) is not None:
                # the simulated process is an ordinary user: it may not unlink entries of /dev
                raise PermissionError(13, "Permission denied", path)
        except TypeError:
            pass
        vp = self._vpath(path)
        if vp is None:
            real = posixpath.normpath(SimFS.norm(path))
            if not _REAL["exists"](real):
                raise FileNotFoundError(2, "No such file or directory", path)
            self.fs.whiteouts.add(real)
            self.fs.removed.append(real)
            return None
        if vp in self.fs.whiteouts:
            raise FileNotFoundError(2, "No such file or directory", path)
        return self.fs.remove(path, vpath=vp)

    def _getsize(self, path):
        if DEV_STD.get(posixpath.normpath(SimFS.norm(path))) is not None:
            return self._os_fstat(DEV_STD[posixpath.normpath(SimFS.norm(path))]).st_size
        vp = self._vpath(path)
        if vp is None:
            return _REAL["getsize"](path)
        if vp in self.fs.fifos:
            return 0
        d = self.fs.files.get(vp)
        if d is None:
            raise FileNotFoundError(2, "No such file or directory", path)
        return len(d)

    def _exists(self, path):
        try:
            vp = self._vpath(path)
        except Exception:
            return False
        if vp is None:
            return _REAL["exists"](path)
        if vp in self.fs.whiteouts:
            return False
        return self.fs.exists(path, vpath=vp) or self._isdir(path)

    def _isfile(self, path):
        try:
            vp = self._vpath(path)
        except Exception:
            return False
        if vp is None:
            return _REAL["isfile"](path)
        return vp in self.fs.files

    def __enter__(self):
        if builtins.open is not _REAL["open"]:
            raise HarnessError("nested World")
        self._saved = {"stdin": sys.stdin, "stdout": sys.stdout, "stderr": sys.stderr}
        builtins.open = self._open
        io.open = self._open
        os.remove = self._remove
        os.unlink = self._remove
        os.path.getsize = self._getsize
        os.path.exists = self._exists
        os.path.isfile = self._isfile
        os.open, os.close, os.read, os.write = self._os_open, self._os_close, self._os_read, self._os_write
        os.lseek, os.fstat, os.stat, os.isatty = self._os_lseek, self._os_fstat, self._os_stat, self._os_isatty
        os.fsync, os.ftruncate = self._os_fsync, self._os_ftruncate
        io.FileIO = self._fileio
        os.rename = os.replace = self._os_rename
        os.path.isdir, os.makedirs, os.listdir = self._isdir, self._os_makedirs, self._os_listdir
        os.getcwd, os.chdir = self._os_getcwd, self._os_chdir
        os.lstat, os.chmod, os.access, os.utime = self._os_lstat, self._os_chmod, self._os_access, self._os_utime
        os.readlink = self._readlink
        os.path.islink = self._islink
        os._exit = self._os__exit
        time.sleep = self._sleep
        world = self

        def _start(thread, *a, **kw):
            world.threads_started += 1
            return _REAL["thread_start"](thread, *a, **kw)
        threading.Thread.start = _start
        _mmap_mod.mmap = self._mmap
        os.scandir = self._scandir
        os.getcwdb = lambda: self._os_getcwd().encode()
        for k, v in self.environ.items():
            self._env_saved[k] = os.environ.get(k)
            os.environ[k] = v
        sys.stdin = _StdinShell(self.stdin_buf)
        sys.stdout = self.stdout_txt
        sys.stderr = self.stderr
        return self

    def __exit__(self, *exc):
        s = self._saved
        self.clock.uninstall()
        builtins.open = _REAL["open"]
        io.open = _REAL["io_open"]
        os.remove = _REAL["remove"]
        os.unlink = _REAL["unlink"]
        os.path.getsize = _REAL["getsize"]
        os.path.exists = _REAL["exists"]
        os.path.isfile = _REAL["isfile"]
        os.open, os.close, os.read, os.write = (_REAL["os_open"], _REAL["os_close"], _REAL["os_read"],
                                                _REAL["os_write"])
        os.lseek, os.fstat, os.stat, os.isatty = (_REAL["os_lseek"], _REAL["os_fstat"], _REAL["os_stat"],
                                                  _REAL["os_isatty"])
        os.fsync, os.ftruncate = _REAL["os_fsync"], _REAL["os_ftruncate"]
        io.FileIO = _REAL["FileIO"]
        os.rename, os.replace = _REAL["os_rename"], _REAL["os_replace"]
        os.path.isdir, os.makedirs, os.listdir = _REAL["isdir"], _REAL["os_makedirs"], _REAL["os_listdir"]
        os.getcwd, os.getcwdb, os.chdir = _REAL["os_getcwd"], _REAL["os_getcwdb"], _REAL["os_chdir"]
        os.lstat, os.chmod, os.access, os.utime = (_REAL["os_lstat"], _REAL["os_chmod"], _REAL["os_access"],
                                                   _REAL["os_utime"])
        os.path.islink = _REAL["islink"]
        os.readlink = _REAL["readlink"]
        os._exit = _REAL["os__exit"]
        time.sleep = _REAL["sleep"]
        threading.Thread.start = _REAL["thread_start"]
        _mmap_mod.mmap = _REAL["mmap"]
        os.scandir = _REAL["scandir"]
        for k, v in self._env_saved.items():
            if v is None:
                os.environ.pop(k, None)
            else:
                os.environ[k] = v
        self._env_saved = {}
        sys.stdin, sys.stdout, sys.stderr = s["stdin"], s["stdout"], s["stderr"]
        self._saved = None
        return False

    # process exit -----------------------------------------------------------
    def finish(self, flush=True):
        """What interpreter shutdown does to the streams the tool left open (nothing at all
        after os._exit: whatever sits in a buffer is lost)."""
        flush_failed = False
        if not flush:
            # keep the buffered objects alive (unflushed) until the results have been read
            self._zombies = list(self.fs.handles)
            self.fs.handles = []
            return False
        try:
            if not self.stdout_txt.closed:
                self.stdout_txt.flush()
        except Exception:
            flush_failed = True
        for h in self.fs.handles:
            try:
                if not h.closed:
                    h.close()
            except Exception:
                pass
        self.fs.handles = []
        return flush_failed

    def stdout_bytes(self):
        return bytes(self.stdout_raw.data)


# --------------------------------------------------------------------------- running a tool
TOOLS = ("hrstoppm", "maxtoppm", "mgetoppm", "cm3toppm", "rattoppm", "pixtopgm", "veftopng",
         "decb_to_b09")
_CODES = {}


def tool_module(tool):
    import importlib
    if tool not in TOOLS:
        raise HarnessError("unknown tool %r" % tool)
    return importlib.import_module("coco." + tool)


_ALT = {}


def tool_module_opt(tool, opt=0):
    """The tool's module as `python -O` (opt=1) or `-OO` (opt=2) would compile it: asserts
    (and docstrings) stripped.  A separate module object; the normal one is untouched."""
    if not opt:
        return tool_module(tool)
    key = (tool, opt)
    if key not in _ALT:
        base = tool_module(tool)
        with _REAL["open"](base.__file__, "r", encoding="utf-8") as f:
            src = f.read()
        code = compile(src, base.__file__, "exec", optimize=opt, dont_inherit=True)
        m = types.ModuleType(base.__name__)
        m.__file__ = base.__file__
        m.__package__ = base.__package__
        exec(code, m.__dict__)
        _ALT[key] = m
    return _ALT[key]


def _tool_codes(tool, opt=0):
    if opt:
        if (tool, opt) not in _CODES:
            import importlib
            _CODES[(tool, opt)] = code_objects_of([tool_module_opt(tool, opt),
                                                   importlib.import_module("coco.util")])
        return _CODES[(tool, opt)]
    if tool not in _CODES:
        import importlib
        mods = [tool_module(tool), importlib.import_module("coco.util")]
        if tool == "decb_to_b09":
            for n in ("compiler", "elements", "parser", "visitors", "procbank", "prog",
                      "configs", "error_handler"):
                mods.append(importlib.import_module("coco.b09." + n))
        _CODES[tool] = code_objects_of(mods)
    return _CODES[tool]


class Outcome:
    __slots__ = ("exit", "detail", "steps", "hang", "stderr", "flush_failed", "trace")

    def __init__(self):
        self.exit = None        # "ok" | "fail"
        self.detail = None      # exception class name / SystemExit payload
        self.steps = 0
        self.hang = False
        self.stderr = ""
        self.flush_failed = False
        self.trace = ""

    def as_tuple(self):
        return (self.exit, self.detail, self.hang)


def run_tool(world: World, tool: str, argv, budget: int, wall=None, opt=0) -> Outcome:
    """Run coco.<tool>.start(argv) as one simulated process inside `world`
    (which must already be entered).  Never lets a tool exception escape."""
    mod = tool_module_opt(tool, opt)
    out = Outcome()
    clock = world.clock
    clock.count = 0
    clock.budget = budget
    clock.exceeded = False
    clock.install(_tool_codes(tool, opt))
    hard = False

    def _stalled(signum, frame):
        clock.exceeded = True
        raise StepBudgetExceeded("wall-clock backstop: blocked outside any loop")
    old = None
    try:
        old = signal.signal(signal.SIGALRM, _stalled)
        signal.alarm(int(wall or WALL_BACKSTOP))
    except ValueError:      # not the main thread
        old = None
    try:
        saved_argv = sys.argv
        try:
            # exactly what the console script does: main() reads sys.argv
            sys.argv = [tool] + list(argv)
            if hasattr(mod, "main"):
                mod.main()
            else:
                mod.start(list(argv))
            out.exit, out.detail = "ok", "return"
        except SystemExit as e:
            c = e.code
            # what the parent sees is the low byte: sys.exit(256) or sys.exit(30720) is status 0
            if isinstance(c, bool):
                c = int(c)
            if c is None or (isinstance(c, int) and c & 0xFF == 0):
                out.exit, out.detail = "ok", "SystemExit(0)" if not c else "SystemExit(%d -> status 0)" % c
            else:
                out.exit = "fail"
                out.detail = "SystemExit(%s)" % (c & 0xFF if isinstance(c, int) else "str")
        except HardExit as e:
            hard = True
            if e.code is None or (isinstance(e.code, int) and e.code & 0xFF == 0):
                out.exit, out.detail = "ok", "os._exit(0)"
            else:
                out.exit, out.detail = "fail", "os._exit(%s)" % (e.code,)
        except StepBudgetExceeded:
            out.exit, out.detail, out.hang = "fail", "StepBudgetExceeded", True
        except HarnessError:
            raise
        except BaseException as e:  # a real CLI prints a traceback and exits 1
            out.exit, out.detail = "fail", type(e).__name__
            if os.environ.get("VERIF_TRACE"):
                out.trace = "".join(traceback.format_exception(e))
    finally:
        sys.argv = saved_argv
        clock.uninstall()
        if old is not None:
            signal.alarm(0)
            signal.signal(signal.SIGALRM, old)
    if clock.exceeded:
        out.exit, out.detail, out.hang = "fail", "StepBudgetExceeded", True
    out.steps = clock.count
    out.flush_failed = world.finish(flush=not hard)
    out.stderr = world.stderr.getvalue()
    return out
