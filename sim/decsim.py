"""One simulated decoder process: environment in, recorded history out.

Shared by C18 (fault-free arm), C19 (fault arm) and the decoder ops of C12.
"""
from . import readers
from .formats import STDIN_OK, STDOUT_OK
from .prng import digest
from .world import ChunkSchedule, World, run_tool

IN_PATH = "/simfs/in.img"
VCWD_OF_PROCESS = None     # set by the C12 worker: the working directory its process was given
TTY_OF_PROCESS = False     # set by the C12 worker: are the standard streams terminals?
OUT_PATH = "/simfs/out.img"
OUT_PNG = "/simfs/out.png"


def out_path(tool):
    return OUT_PNG if tool == "veftopng" else OUT_PATH


# file-name styles: plain, blanks in directory and file names, relative to the working
# directory, non-ASCII
NAME_STYLES = (("/simfs/in.img", "/simfs/out"), ("/simfs/my dir/in file.img", "/simfs/my dir/out file"),
               ("in.img", "out"), ("/simfs/\u00fc/\u00efn.img", "/simfs/\u00fc/\u00f6ut"),
               ("/simfs/a/b/../in.img", "/simfs/a/./out"),
               # names just inside NAME_MAX (255 bytes): 251 and 252 bytes long, ASCII and two-byte
               ("/simfs/" + "n" * 247 + ".img", "/simfs/" + "o" * 248),
               ("/simfs/" + "\u00e9" * 123 + "n.img", "/simfs/" + "\u00e9" * 124),
               # shell metacharacters that are ordinary characters in a file name; a sibling file
               # that a wildcard expansion of the name would match sits next to it
               ("/simfs/g/pic[1]?*.img", "/simfs/g/out[1]"),
               # the input name is a symbolic link to the file
               ("/simfs/ln/in.img", "/simfs/ln/out"),
               # extensions of other formats and of none (the options say what the file is)
               ("/simfs/x/drawing.art", "/simfs/x/picture"), ("/simfs/x/PIC.MAX", "/simfs/x/scan.hrs"),
               ("/simfs/x/noext", "/simfs/x/out.vef"))
SIBLINGS = {7: ("/simfs/g/pic1xy.img",)}
SYMLINK_STYLE = 8
SYMLINK_TARGET = "store/data.bin"           # relative to the link's directory


def paths_for(tool, style):
    i, o = NAME_STYLES[style % len(NAME_STYLES)]
    return i, o + (".png" if tool == "veftopng" else ".img")


VALUE_OPTS = ("-w", "-r", "-s")


def spell_argv(tool, opts, seed):
    """Another spelling of the same option list, as argparse and int() accept it: value
    attached (-w16), '=' form (-w=16), '+' sign, leading zeros, digit-group underscore,
    the option given twice (last one wins).  seed 0 = canonical."""
    if not seed:
        return list(opts)
    import random
    r = random.Random(seed)
    out = []
    i = 0
    while i < len(opts):
        o = opts[i]
        if o in VALUE_OPTS and i + 1 < len(opts):
            v = opts[i + 1]
            c = r.random()
            if c < 0.15 and len(v) > 1:
                v2 = v[0] + "_" + v[1:]
            elif c < 0.3:
                v2 = "+" + v
            elif c < 0.45:
                v2 = "0" * r.randint(1, 3) + v
            else:
                v2 = v
            if r.random() < 0.15:
                out += [o, str(r.randint(1, 50))]          # overridden by the later occurrence
            form = r.random()
            # "-s10"/"-s11" are pixel modes of maxtoppm, so -s is never attached there
            if form < 0.25 and not (tool == "maxtoppm" and o == "-s") and not v2.startswith(("+", "_")):
                out.append(o + v2)
            elif form < 0.4 and not v2.startswith("+"):
                out.append(o + "=" + v2)
            else:
                out += [o, v2]
            i += 2
        else:
            out.append(o)
            i += 1
    return out


def _opt(opts, name, default):
    if name in opts:
        try:
            return int(opts[opts.index(name) + 1])
        except (ValueError, IndexError):
            return default
    return default


def step_budget(tool, opts, data):
    """Deliberately loose bound separating 'terminates' from 'does not' (DESIGN 5):
    150 back-edges per input byte + 3 per sample that the options and the (possibly damaged)
    header fields can announce + 250 000.  Legitimate cost measured on the fixtures is < 1 per
    (input byte + sample); the worst terminating input that can be built at all (squashed VEF
    records made of 127-fold repeats) costs 63.5 per input byte."""
    in_len = len(data)
    skip = _opt(opts, "-s", 0)
    if tool == "hrstoppm":
        samples = 3 * _opt(opts, "-w", 320) * _opt(opts, "-r", 192)
    elif tool == "maxtoppm":
        w = _opt(opts, "-w", 256)
        if "-newsroom" in opts:
            hd = data[skip:skip + 2]
            samples = 3 * 8 * hd[0] * hd[1] if len(hd) == 2 else 0
        elif "-r" in opts:
            samples = 3 * w * _opt(opts, "-r", 192)
        else:
            hd = data[skip:skip + 3]
            size = hd[1] * 256 + hd[2] if len(hd) == 3 else 0
            samples = 3 * 8 * size
    elif tool == "pixtopgm":
        samples = 2 * in_len
    else:
        samples = 3 * 64000 * 2
    return 150 * in_len + 3 * samples + 250_000


class Env:
    """The I/O environment of one run (what the scheduler decides)."""
    __slots__ = ("in_kind", "out_kind", "in_chunk", "out_chunk", "in_seed", "out_seed", "out_pre",
                 "unbuf", "names", "spell", "late_opts", "inplace", "opt", "envseed")

    def __init__(self, in_kind="path", out_kind="path", in_chunk="whole", out_chunk="whole",
                 in_seed=0, out_seed=0, out_pre=0, unbuf=False, names=0, spell=0, late_opts=False,
                 inplace=False, opt=0, envseed=0):
        self.opt = opt              # interpreter optimisation level (python -O / -OO)
        self.envseed = envseed      # seed of the process environment variables (0 = inherited)
        self.inplace = inplace      # output written over the input file (veftopng reads first)
        self.unbuf = unbuf          # the interpreter runs with -u / PYTHONUNBUFFERED=1
        self.names = names          # file-name style (NAME_STYLES)
        self.spell = spell          # seed of an alternative spelling of the option list
        self.late_opts = late_opts  # options after the positional arguments
        self.in_kind, self.out_kind = in_kind, out_kind
        self.in_chunk, self.out_chunk = in_chunk, out_chunk
        self.in_seed, self.out_seed = in_seed, out_seed
        self.out_pre = out_pre      # length of a file already sitting at the output path

    def to_json(self):
        return {k: getattr(self, k) for k in self.__slots__}

    @classmethod
    def from_json(cls, d):
        return cls(**d)

    def key(self):
        return (self.in_kind, self.out_kind if not self.inplace else "inplace",
                self.in_chunk if self.in_kind != "path" else "-",
                ("unbuffered" if self.unbuf else self.out_chunk) if self.out_kind != "path"
                else ("pre%d" % self.out_pre if self.out_pre else "-"))


NON_ASCII_NAME_STYLES = (3, 6)


def env_vars(seed, names=0):
    """Environment variables of the simulated process (terminal size, TERM, TMPDIR, HOME, TZ,
    locale): nothing an image may depend on.  A text layer that cannot encode the file names
    the tool echoes (veftopng prints its output name) is a different matter - the unchanged tool
    fails there - so non-ASCII file names keep a UTF-8 text layer."""
    if not seed:
        return {}
    if names % len(NAME_STYLES) in NON_ASCII_NAME_STYLES:
        d = env_vars(seed)
        d["PYTHONIOENCODING"] = "utf-8"
        return d
    import random
    r = random.Random(seed)
    return {"COLUMNS": str(r.choice((1, 4, 5, 20, 80, 400))), "LINES": str(r.choice((1, 3, 24, 200))),
            "TERM": r.choice(("dumb", "xterm", "")), "TMPDIR": r.choice(("/simfs/tmp", "/nonexistent", "/tmp")),
            "HOME": r.choice(("/", "/nonexistent", "/simfs/home")), "TZ": r.choice(("UTC", "JST-9", "PST8PDT")),
            "LANG": r.choice(("C", "POSIX", "C.UTF-8", "en_US.UTF-8")), "NO_COLOR": r.choice(("", "1")),
            # the encoding of the text layer of stdout/stderr (messages only; images are bytes)
            "PYTHONIOENCODING": r.choice(("utf-8", "ascii", "latin-1", "utf-8"))}


def env_valid(tool, env):
    if env.inplace and not (tool == "veftopng" and env.in_kind == "path" and env.out_kind == "path"):
        return False
    if env.out_kind == "devstdout" and (tool not in STDOUT_OK):
        return False          # veftopng prints its progress text there; not an image channel
    if env.in_kind == "devstdin":
        # the process's own stdin, named as a file; a pipe: no size (pixtopgm needs one)
        return tool != "pixtopgm" and (env.out_kind == "path" or tool in STDOUT_OK)
    if env.in_kind in ("redir", "redir_off"):
        # stdin redirected from a regular file (`tool - < file`), at offset 0 or already advanced
        return tool in STDIN_OK and (env.out_kind == "path" or tool in STDOUT_OK)
    if env.in_kind == "fifo":
        # a named pipe given as the input file: fine for every tool that does not ask for the
        # file's size (pixtopgm does)
        return tool != "pixtopgm" and (env.out_kind == "path" or tool in STDOUT_OK)
    if env.in_kind != "path" and tool not in STDIN_OK:
        return False
    if env.out_kind != "path" and tool not in STDOUT_OK:
        return False
    # argparse positionals: output can only be named if input is named
    if env.in_kind == "default" and env.out_kind != "default":
        return False
    return True


def build_argv(opts, env, tool=None):
    argv = spell_argv(tool, opts, env.spell)
    inp, outp = paths_for(tool, env.names)
    if env.inplace:
        inp = outp
    pos = []
    if env.in_kind == "devstdin":
        pos.append("/dev/stdin")
    elif env.in_kind in ("path", "fifo"):
        pos.append(inp)
    elif env.in_kind in ("dash", "redir", "redir_off"):
        pos.append("-")
    if env.out_kind == "path":
        pos.append(outp)
    elif env.out_kind == "dash":
        pos.append("-")
    elif env.out_kind == "devstdout":
        pos.append("/dev/stdout")
    return pos + argv if env.late_opts and pos else argv + pos


class Run:
    __slots__ = ("tool", "argv", "outcome", "out", "out_present", "cls", "info", "steps",
                 "events", "event_digest", "short", "dmg_site", "consumed", "app_reads",
                 "raw_reads", "raw_writes", "stdout_text", "success", "removed", "budget", "threads")

    def signature_site(self):
        s = self.short or self.dmg_site
        return "%s: %s" % (s[0], s[1]) if s else "-"

    def digest(self):
        """Everything the determinism self-checks compare.  Loop counts and the stream-event log
        are part of it only for single-threaded runs: a tool that converts rows on a thread
        pool produces the same bytes with a scheduling-dependent count."""
        trace = (self.steps, self.event_digest) if not self.threads else ("threads",)
        return digest(self.tool, self.argv, self.outcome.as_tuple(), self.out_present,
                      self.out if self.out is not None else b"", self.cls, trace,
                      self.short, self.dmg_site)


def simulate(tool, opts, data: bytes, env: Env, damaged=(), boundaries=(), budget=None, wall=None) -> Run:
    argv = build_argv(opts, env, tool)
    inp, outp = paths_for(tool, env.names)
    if env.inplace:
        inp = outp
    budget = budget or step_budget(tool, opts, data)
    sin = ChunkSchedule(env.in_chunk, env.in_seed, boundaries)
    sout = ChunkSchedule(env.out_chunk, env.out_seed)
    use_stdin = env.in_kind not in ("path", "fifo")
    redirect = None
    if env.in_kind in ("redir", "redir_off"):
        import random as _r0
        k = 0 if env.in_kind == "redir" else 1 + env.in_seed % 97
        redirect = (_r0.Random(env.in_seed).randbytes(k) + bytes(data), k)
    w = World(stdin_data=data if use_stdin else None, stdin_file=redirect, stdin_sched=sin, stdout_sched=sout,
              stdin_damaged=damaged if use_stdin else (), vcwd=VCWD_OF_PROCESS,
              stdout_unbuffered=env.unbuf, environ=env_vars(env.envseed, env.names),
              tty=TTY_OF_PROCESS or bool(env.envseed and env.envseed % 5 == 0),
              stdout_encoding=env_vars(env.envseed, env.names).get("PYTHONIOENCODING", "utf-8"))
    with w:
        if env.in_kind == "fifo":
            w.fs.fifos[w._vpath(inp, writing=True)] = (bytes(data), sin, list(damaged))
        elif not use_stdin and env.names % len(NAME_STYLES) == SYMLINK_STYLE and not env.inplace:
            w.fs.symlinks[inp] = SYMLINK_TARGET
            w.fs.put(w._vpath(inp), data, damaged)
        elif not use_stdin:
            w.fs.put(w._vpath(inp, writing=True), data, damaged)
        for sib in SIBLINGS.get(env.names % len(NAME_STYLES), ()):
            w.fs.put(sib, bytes(len(data)))
        if env.out_kind == "path" and env.out_pre and not env.inplace:
            import random as _r
            w.fs.put(w._vpath(outp, writing=True), _r.Random(env.out_seed).randbytes(env.out_pre))
        o = run_tool(w, tool, argv, budget, wall, env.opt)
    r = Run()
    r.tool, r.argv, r.outcome, r.steps, r.budget = tool, argv, o, o.steps, budget
    r.threads = w.threads_started
    if env.out_kind == "path":
        r.out = w.fs.get(w._vpath(outp, writing=True))
        r.out_present = r.out is not None
        r.stdout_text = w.stdout_bytes().decode("utf-8", "replace")
    else:
        r.out = w.stdout_bytes()
        r.out_present = True
        r.stdout_text = ""
    r.removed = list(w.fs.removed)
    rd = w.stdin_buf if use_stdin else (w.fs.readers.get(w._vpath(inp, writing=True)) or [None])[0]
    r.short = rd.short if rd else None
    r.dmg_site = rd.dmg_site if rd else None
    r.consumed = rd.consumed_damage() if rd else False
    r.app_reads = rd.app_reads if rd else 0
    r.raw_reads = getattr(w.stdin_raw, "raw_reads", 0)
    r.raw_writes = w.stdout_raw.raw_writes
    r.events = w.log.n
    r.event_digest = w.log.hexdigest()
    # does the process claim success?
    if o.exit != "ok":
        r.success = False
    elif not r.out_present:
        # documented failure result of maxtoppm: it returns normally and no output file is
        # left behind (whether it removed one or never created it is not the property's business)
        r.success = False if tool == "maxtoppm" else True
    else:
        r.success = True
    if r.success:
        if r.out is None:
            r.cls, r.info = "bad_header", {"why": "success claimed but no output file"}
        else:
            r.cls, r.info = readers.classify(tool, r.out)
    else:
        r.cls, r.info = "failure_reported", {"detail": o.detail}
    if o.hang:
        r.cls = "hang"
    return r
