"""Top-level drivers of the C18 and C19 checks: run, reduce, report, evidence."""
import json
import os
import time

from . import REPO, deccheck as dc
from .decsim import Env
from .prng import digest
from .runner import (EXIT_HARNESS, EXIT_OK, EXIT_VIOLATION, HarnessFailure, base_seed, chunks,
                     fresh_interpreter, pmap, say, write_evidence)

COMPONENTS = {
    "real": ["coco.hrstoppm/maxtoppm/mgetoppm/cm3toppm/rattoppm/pixtopgm/veftopng start() and "
             "convert()", "coco.util", "argparse (FileType, option parsing)",
             "CPython io.BufferedReader/BufferedWriter/TextIOWrapper", "pypng", "PIL (open, resize, save)"],
    "stub": ["file system (SimFS, in memory, paths under /simfs/)", "raw stdin pipe / stdout sink "
             "(seeded chunk sizes)", "stderr (captured)", "process exit (flush/close emulation)",
             "os.remove / os.path.getsize / os.path.exists", "clock (loop back-edge counter)"],
}

TIERS = {
    "C19": {"quick": {"runs": 4000, "det": 24, "fid": 32, "sweep": False},
            "thorough": {"runs": 150000, "det": 512, "fid": 200, "sweep": True}},
    "C18": {"quick": {"runs": 1500, "det": 16, "fid": 32, "sweep": False},
            "thorough": {"runs": 60000, "det": 256, "fid": 200, "sweep": True}},
}


def _scale(n):
    f = float(os.environ.get("VERIF_SCALE", "1"))
    return max(1, int(n * f))


def determinism_selfcheck(prop, seed, idxs, records):
    """Re-execute sampled runs in a fresh interpreter under another PYTHONHASHSEED and with
    one worker; their digests must equal this process's."""
    idxs = [i for i in idxs if not any(r["i"] == i and r.get("cls") == "hang_suspect"
                                       for r in records)]
    want = {r["i"]: (r["digest"] if prop == "C19" else [x["digest"] for x in r["runs"]])
            for r in records if r["i"] in set(idxs)}
    rc, out, err = fresh_interpreter([prop, "--digests", ",".join(str(i) for i in idxs)],
                                     hashseed="4242", timeout=900)
    if rc != 0:
        raise HarnessFailure("determinism self-check subprocess failed rc=%s: %s" % (rc, err[-500:]))
    got = json.loads(out.strip().splitlines()[-1])
    bad = [i for i in idxs if got.get(str(i)) != want.get(i)]
    if bad:
        raise HarnessFailure("non-deterministic simulation: runs %s differ between interpreters" % bad[:10])
    return len(idxs)


def digests_only(prop, idxs):
    seed = base_seed()
    dc.warm()
    out = {}
    for i in idxs:
        if prop == "C19":
            out[str(i)] = dc.c19_one(seed, i)["digest"]
        else:
            out[str(i)] = [x["digest"] for x in dc.c18_one(seed, i)["runs"]]
    print(json.dumps(out))
    return EXIT_OK


# ============================================================================= C19
def main_c19(tier):
    t0 = time.time()
    seed = base_seed()
    cfg = TIERS["C19"][tier]
    n = _scale(cfg["runs"])
    say("C19 tier=%s VERIF_SEED=%d runs=%d repo=%s" % (tier, seed, n, REPO))
    recs = []
    for part in pmap(dc.c19_chunk, [(seed, a, b) for a, b in chunks(n, 100)]):
        recs.extend(part)
    # ---- exhaustive prefix sweep (thorough)
    sweep_recs = []
    sweeps = []
    if cfg["sweep"]:
        tasks = []
        mcs = dc.minimal_cases()
        for ci, c in enumerate(mcs):
            L = len(c.data)
            stride = 1 if L <= 9000 else 16
            step = max(64, (L // 48) // stride * stride or stride)
            for a in range(0, L + 1, step):
                tasks.append((ci, a, min(L + 1, a + step), stride))
            sweeps.append({"what": "every prefix" if stride == 1 else "every %dth prefix" % stride,
                           "format": c.fmt, "file_len": L, "opts": c.opts})
        for part in pmap(dc.c19_prefix_chunk, tasks):
            sweep_recs.extend(part)
    if not cfg["sweep"]:
        # quick: only the last bytes of every sweep file
        tail_tasks = [(ci, part, 12 if ci in dc.LINE_BYTES else 1)
                      for ci in range(len(dc.minimal_cases()))
                      for part in range(12 if ci in dc.LINE_BYTES else 1)]
        tail_tasks += [(-k - 1, 0, 1) for k in range(len(dc.tail_variants()))]
        for part in pmap(dc.c19_tail_chunk, tail_tasks):
            sweep_recs.extend(part)
        sweeps.append({"what": "every sweep file and ten more full-size variants cut 1..32, 40, 48, 64, 100, 161, 256, 700, 1500, 4000 bytes before the end; every line start of four raw full-size files",
                       "files": len(dc.minimal_cases())})
    # ---- header-field value sweep (an enumeration; both tiers)
    field_recs = []
    for part in pmap(dc.c19_field_chunk, dc.field_sweep_tasks(tier)):
        field_recs.extend(part)
    sweeps.append({"what": "every header byte of kind magic/size/flag/page%s of each small sweep "
                           "file set to %s; every control byte of four line-structured full-size "
                           "files (MGE run per line, RAT triple per line, CM3, squashed VEF) set to %s"
                           % (", palette" if tier == "thorough" else "",
                              "every value 0..255" if tier == "thorough" else "16 boundary values",
                              "16 boundary values" if tier == "thorough" else "0"),
                   "runs": len(field_recs)})
    # ---- reduce
    viol = [r for r in recs if r["verdict"] == "violation"]
    known = sorted(set(r["verdict"][6:] for r in recs if r["verdict"].startswith("known:")))
    sv = [r for r in sweep_recs if r["verdict"] == "violation"]
    known += [k for k in sorted(set(r["verdict"][6:] for r in sweep_recs
                                     if r["verdict"].startswith("known:"))) if k not in known]
    sigs = {}
    for r in viol:
        sigs.setdefault((r["tool"], r["cls"], r["site"]), r["i"])
    reported = []
    if sigs:
        todo = sorted(sigs.values())[:dc.MAX_REPORTED]
        for m in pmap(dc.c19_minimise, [(seed, i) for i in todo], per_task_timeout=900):
            rc, out, err = fresh_interpreter(["C19", "--replay", m["replay"]], hashseed="99")
            m["replay_reproduces"] = (rc == EXIT_VIOLATION and m["digest"] in out)
            if not m["replay_reproduces"]:
                raise HarnessFailure("replay %s did not reproduce (rc=%s)\n%s\n%s" %
                                     (m["replay"], rc, out[-400:], err[-400:]))
            reported.append(m)
    fv = [r for r in field_recs if r["verdict"] == "violation"]
    known += [k for k in sorted(set(r["verdict"][6:] for r in field_recs
                                     if r["verdict"].startswith("known:"))) if k not in known]
    seen_fv = set()
    fv1 = []
    for r in fv:
        if (r["tool"], r["cls"], r["k"]) not in seen_fv:
            seen_fv.add((r["tool"], r["cls"], r["k"]))
            fv1.append(r)
    for r in (sv[:dc.MAX_REPORTED] + fv1[:dc.MAX_REPORTED]):
        # sweep violations: one fault on a fixed small file is already minimal
        case = dc.sweep_case(r.get("src", "min"), r["ci"]) if r["ci"] >= 0 else dc.tail_variants()[-r["ci"] - 1]
        if "v" in r:
            plan = [{"kind": "set", "at": r["k"], "val": r["v"]}]
        else:
            plan = [{"kind": "truncate", "at": r["k"]}]
        env = Env() if r["env"][0] == "path" else Env("dash", "dash", "small", "small", r["k"], r["k"])
        data, dmg, eff, run, verdict, cls = dc.c19_execute(case, plan, env)
        doc = dc.c19_replay_doc(seed, -1, case, plan, env, data, run, cls)
        from .runner import write_replay
        path = write_replay("C19", "%d-%s-%s-%d%s" % (seed, "field" if "v" in r else "prefix", case.fmt,
                                                       r["k"], ("=%d" % r["v"]) if "v" in r else ""), doc)
        reported.append({"index": -1, "sig": [case.tool, cls, run.signature_site()], "replay": path,
                         "digest": run.digest(), "plan": plan})
    # ---- determinism self-check and fidelity (a failure here must never hide a violation that
    # is already established: with violations to report it is downgraded to a warning)
    det = 0
    fid_n, fid_bad = 0, []
    try:
        if cfg["det"]:
            step = max(1, n // cfg["det"])
            det = determinism_selfcheck("C19", seed, list(range(0, n, step))[:cfg["det"]], recs)
        if cfg["fid"]:
            step = max(1, n // cfg["fid"])
            idxs = list(range(0, n, step))[:cfg["fid"]]
            for cnt, bad in pmap(dc.fidelity_chunk, [("C19", seed, idxs[k::16]) for k in range(16)]):
                fid_n += cnt
                fid_bad += bad
            if fid_bad:
                raise HarnessFailure("simulation disagrees with the real CLI: %s" % fid_bad[:3])
    except HarnessFailure as e:
        if not reported:
            raise
        say("HARNESS-WARNING: %s" % e)
    # ---- report
    for k in known:
        say("KNOWN-FINDING: property=C19 %s (see known_findings.json)" % k)
    for m in reported:
        say("VIOLATION property=C19 replay=%s" % m["replay"])
        say("  signature: tool=%s class=%s site=%s digest=%s" % (m["sig"][0], m["sig"][1],
                                                               m["sig"][2], m["digest"][:16]))
    wall = time.time() - t0
    # ---- evidence
    kinds = {}
    for r in recs:
        for k, e in zip(r["kinds"], r["eff"]):
            d = kinds.setdefault(k, {"injected": 0, "effective": 0, "observed_by_tool": 0})
            d["injected"] += 1
            d["effective"] += 1 if e else 0
            d["observed_by_tool"] += 1 if (e and r["observed"]) else 0
    states = sorted(set((r["tool"], r["site"], r["cls"]) for r in recs))
    probes = {}
    for r in recs:
        probes[r["hdr_where"]] = probes.get(r["hdr_where"], 0) + 1
    probes["hang_suspect_runs_cut_short"] = sum(1 for r in recs if r["cls"] == "hang_suspect")
    probes["max_ignore_path_taken"] = sum(1 for r in recs if r["tool"] == "maxtoppm" and r["ignore"])
    probes["max_removal_path_taken"] = sum(1 for r in recs if r["tool"] == "maxtoppm" and r["removed"])
    probes["damaged_byte_consumed"] = sum(1 for r in recs if r["dmg_consumed"])
    probes["short_read_seen"] = sum(1 for r in recs if r["short"])
    probes["stdin_pipe_runs"] = sum(1 for r in recs if r["env"][0] != "path")
    probes["stdout_pipe_runs"] = sum(1 for r in recs if r["env"][1] != "path")
    nontriv = len(set(r["in_digest"] for r in recs if r["observed"] and any(r["eff"])))
    by_cls = {}
    for r in recs:
        by_cls[r["cls"]] = by_cls.get(r["cls"], 0) + 1
    samples = []
    for r in recs[:400]:
        if r["observed"] and len(samples) < 6:
            case, plan, env = dc.c19_case(seed, r["i"])
            samples.append({"run_index": r["i"], "tool": r["tool"], "opts": case.opts,
                            "input_len_before": len(case.data), "fault_plan": plan,
                            "env": env.to_json(), "outcome": r["cls"], "exit": r["detail"],
                            "first_anomalous_read": r["site"]})
    coverage = {
        "evaluations": len(recs) + len(sweep_recs) + len(field_recs),
        "distinct_nontrivial": nontriv,
        "rule": "one evaluation = one simulated decoder process on a damaged input; a case is "
                "non-trivial when at least one fault changed the bytes AND the tool observed it "
                "(read a damaged byte or met the early EOF); distinct = distinct "
                "(tool, argv, damaged bytes, stream kinds) digests",
        "samples": samples,
        "runs_per_hour": int(3600 * (len(recs) + len(sweep_recs)) / max(wall, 1e-6)),
        "simulated_steps": sum(r["steps"] for r in recs) + sum(r["steps"] for r in sweep_recs),
        "simulated_time_note": "the only clock is the loop back-edge counter; simulated_steps is "
                               "the simulated time covered",
        "stream_events": sum(r["events"] for r in recs),
        "fault_kinds": kinds,
        "outcomes": by_cls,
        "states_measure": "distinct (tool, first anomalous read site, outcome class) triples",
        "states": len(states),
        "reach_probes": probes,
        "components": COMPONENTS,
        "exhaustive_sweeps": sweeps,
        "exhaustive_sweep_runs": len(sweep_recs) + len(field_recs),
        "exhaustive": False,
        "determinism_selfcheck_runs": det,
        "traces_validated_against_impl": fid_n,
        "known_findings_hit": known,
        "violation_signatures": len(sigs) + len(sv) + len(fv1),
        "workers": int(os.environ.get("VERIF_WORKERS", "16")),
        "report_digest": digest([r["digest"] for r in recs], [r["digest"] for r in sweep_recs],
                                [r["digest"] for r in field_recs]),
    }
    write_evidence("C19", tier, seed, "fault_enumeration", coverage, wall, len(reported), [
        "damage is to stored/in-flight bytes only; I/O errors (EIO, ENOSPC, EPIPE, EINTR) are "
        "not injected because the property does not speak of them",
        "the step clock sees Python loops of the coco package, not C loops in zlib/PIL/pypng",
        "success/failure classification follows DESIGN.md section 2 (process exit emulation)",
    ])
    say("REPORT-DIGEST C19 %s" % coverage["report_digest"])
    say("C19 %s: %d runs (+%d sweep), %d violation signature(s), known=%s, %.1fs" %
        (tier, len(recs), len(sweep_recs) + len(field_recs), len(reported), known, wall))
    return EXIT_VIOLATION if reported else EXIT_OK


def replay_c19(path):
    with open(path) as f:
        doc = json.load(f)
    verdict, cls, run = dc.c19_replay(doc)
    exp = doc["expect"]
    say("replay C19 %s: verdict=%s class=%s site=%s digest=%s" %
        (os.path.basename(path), verdict, cls, run.signature_site(), run.digest()))
    if verdict == "violation" and cls == exp["class"] and run.signature_site() == exp["site"] \
            and run.digest() == exp["digest"]:
        say("VIOLATION property=C19 replay=%s" % path)
        return EXIT_VIOLATION
    say("replay did not reproduce: expected class=%s site=%s digest=%s" %
        (exp["class"], exp["site"], exp["digest"]))
    return EXIT_HARNESS


# ============================================================================= C18
def main_c18(tier):
    t0 = time.time()
    seed = base_seed()
    cfg = TIERS["C18"][tier]
    n = _scale(cfg["runs"])
    say("C18 tier=%s VERIF_SEED=%d cases=%d repo=%s" % (tier, seed, n, REPO))
    recs = []
    for part in pmap(dc.c18_chunk, [(seed, a, b) for a, b in chunks(n, 10 if tier == "quick" else 50)]):
        recs.extend(part)
    sweep = []
    sweeps = []
    if cfg["sweep"]:
        tasks = [(fmt, list(range(a, min(65, a + 4)))) for fmt in ("hrs", "max") for a in range(1, 65, 4)]
        for part in pmap(dc.c18_sweep_chunk, tasks):
            sweep.extend(part)
        sweeps = [{"what": "every -w 1..64 x -r {1,2,3} x (r=2: every -s 0..32) x file/pipe", "format": f}
                  for f in ("hrs", "max")]
    bad = [r for r in recs if r["problems"]]
    known = sorted(set(r["known"] for r in recs if r["known"]) |
                   set(r["known"] for r in sweep if r["known"]))
    sigs = {}
    for r in bad:
        for cls, ei in r["problems"]:
            sigs.setdefault((r["tool"], cls), r["i"])
    reported = []
    if sigs:
        todo = sorted(set(sigs.values()))[:dc.MAX_REPORTED]
        for m in pmap(dc.c18_minimise, [(seed, i) for i in todo], per_task_timeout=900):
            rc, out, err = fresh_interpreter(["C18", "--replay", m["replay"]], hashseed="99")
            if rc != EXIT_VIOLATION:
                raise HarnessFailure("replay %s did not reproduce (rc=%s)\n%s\n%s" %
                                     (m["replay"], rc, out[-400:], err[-400:]))
            reported.append(m)
    sweep_bad = [r for r in sweep if r["problems"]]
    for r in sweep_bad[:dc.MAX_REPORTED]:
        from .runner import b64, write_replay
        case = dc.plain_case(r["fmt"], r["w"], r["r"], r["s"], r["mode"], use_r=(r["r"] != 3))
        envs = [Env(), Env("dash", "dash", "tiny", "tiny", r["w"] * 131 + r["s"], r["r"])]
        problems, rr, kn = dc.c18_check_case(case, envs)
        doc = {"kind": "decoder-faultfree-case", "seed": seed, "index": -1, "tool": case.tool,
               "opts": case.opts, "input_b64": b64(case.data), "dims": list(case.dims),
               "alt_dims": None, "envs": [e.to_json() for e in envs], "fmt": case.fmt,
               "skip": case.skip,
               "expect": {"class": problems[0][0] if problems else "?", "detail": "",
                          "digests": [x["digest"] for x in rr]}}
        path = write_replay("C18", "%d-sweep-%s-w%d-r%d-s%d%s" % (seed, r["fmt"], r["w"], r["r"],
                                                               r["s"], r["mode"]), doc)
        reported.append({"index": -1, "sig": [case.tool, doc["expect"]["class"]], "replay": path})
    det = 0
    fid_n, fid_bad = 0, []
    try:
        if cfg["det"]:
            step = max(1, n // cfg["det"])
            det = determinism_selfcheck("C18", seed, list(range(0, n, step))[:cfg["det"]], recs)
        if cfg["fid"]:
            step = max(1, n // cfg["fid"])
            idxs = list(range(0, n, step))[:cfg["fid"]]
            for cnt, b in pmap(dc.fidelity_chunk, [("C18", seed, idxs[k::16]) for k in range(16)]):
                fid_n += cnt
                fid_bad += b
            if fid_bad:
                raise HarnessFailure("simulation disagrees with the real CLI: %s" % fid_bad[:3])
    except HarnessFailure as e:
        if not reported:
            raise
        say("HARNESS-WARNING: %s" % e)
    for k in known:
        say("KNOWN-FINDING: property=C18 %s (see known_findings.json)" % k)
    for m in reported:
        say("VIOLATION property=C18 replay=%s" % m["replay"])
        say("  signature: tool=%s class=%s" % (m["sig"][0], m["sig"][1]))
    wall = time.time() - t0
    nruns = sum(len(r["runs"]) for r in recs) + sum(r["nruns"] for r in sweep)
    env_shapes = {}
    chunk_kinds = {}
    for r in recs:
        for x in r["runs"]:
            if isinstance(x["env"], (list, tuple)):
                k = "%s:%s->%s" % (r["tool"], x["env"][0], x["env"][1])
                env_shapes[k] = env_shapes.get(k, 0) + 1
                for c in x["env"][2:]:
                    if c != "-":
                        chunk_kinds[c] = chunk_kinds.get(c, 0) + 1
    distinct = len(set(r["case_digest"] for r in recs if len(r["runs"]) > 1))
    samples = [{"case_index": r["i"], "tool": r["tool"], "opts": r["opts"], "input_len": r["len"],
                "advertised_dims": r["dims"],
                "environments": [x["env"] for x in r["runs"]],
                "outcome": [x["cls"] for x in r["runs"]], "known_finding": r["known"]}
               for r in recs[:5]]
    coverage = {
        "evaluations": nruns,
        "distinct_nontrivial": distinct,
        "rule": "one evaluation = one simulated decoder process on a well-formed input in one "
                "I/O environment; a case (tool, options, file bytes) is non-trivial when it was "
                "run in at least two environments (file/pipe x chunk schedule) so that stream "
                "equivalence had something to compare; distinct = distinct case digests",
        "samples": samples,
        "cases": len(recs),
        "runs_per_hour": int(3600 * nruns / max(wall, 1e-6)),
        "simulated_steps": sum(x["steps"] for r in recs for x in r["runs"]),
        "stream_events": sum(x["events"] for r in recs for x in r["runs"]),
        "raw_pipe_reads": sum(x["raw_reads"] for r in recs for x in r["runs"]),
        "raw_pipe_writes": sum(x["raw_writes"] for r in recs for x in r["runs"]),
        "fault_kinds": {"none": "fault-free arm; the scheduler decides stream kinds and raw "
                                "chunk sizes only"},
        "environment_shapes": env_shapes,
        "chunk_schedules": chunk_kinds,
        "states_measure": "distinct (tool, input kind, output kind) shapes reached",
        "states": len(env_shapes),
        "options_rejected_by_parser": sum(1 for r in recs for x in r["runs"] if x["cls"] == "options_rejected"),
        "skip_equivalence_cases": sum(1 for r in recs for x in r["runs"] if x["env"] == "skip-stripped"),
        "fixture_cases": sum(1 for r in recs if r["fixture"]),
        "components": COMPONENTS,
        "exhaustive_sweeps": sweeps,
        "exhaustive_sweep_cases": len(sweep),
        "exhaustive": False,
        "determinism_selfcheck_runs": det,
        "traces_validated_against_impl": fid_n,
        "known_findings_hit": known,
        "violation_signatures": len(reported),
        "report_digest": digest([[x["digest"] for x in r["runs"]] for r in recs],
                                [(r["fmt"], r["w"], r["r"], r["s"], r["mode"], r["problems"]) for r in sweep]),
    }
    write_evidence("C18", tier, seed, "exploration", coverage, wall, len(reported), [
        "well-formed means produced by the reference encoders of sim/formats.py (DESIGN.md "
        "appendix A) or shipped as a test fixture",
        "VEF type 4 (640x200x2) is left out of the workload: the tool recognises the header "
        "but has no pixel branch, and the property's 'supported layout' does not clearly cover it",
        "640-wide VEF output may be 640x200 or 640x400 (the tool announces the resize)",
    ])
    say("REPORT-DIGEST C18 %s" % coverage["report_digest"])
    say("C18 %s: %d cases, %d runs (+%d sweep cases), %d violation signature(s), known=%s, %.1fs" %
        (tier, len(recs), nruns, len(sweep), len(reported), known, wall))
    return EXIT_VIOLATION if reported else EXIT_OK


def replay_c18(path):
    with open(path) as f:
        doc = json.load(f)
    problems, recs, known = dc.c18_replay(doc)
    exp = doc["expect"]
    got = [r["digest"] for r in recs]
    say("replay C18 %s: problems=%s" % (os.path.basename(path), [(p[0], p[1]) for p in problems]))
    if any(p[0] == exp["class"] for p in problems) and got == exp["digests"]:
        say("VIOLATION property=C18 replay=%s" % path)
        return EXIT_VIOLATION
    say("replay did not reproduce: expected class=%s" % exp["class"])
    return EXIT_HARNESS
