#!/venv/bin/python
"""Entry point of every check:  run_check.py <C12|C18|C19> [--tier quick|thorough]
[--replay FILE] [--digests i,j,k].  Exit 0 held / 1 violation / 2 harness error."""
import os
import sys
import traceback

HERE = os.path.dirname(os.path.abspath(__file__))
sys.path.insert(0, HERE)

# One fixed str-hash seed for the harness itself: re-exec once if it is not pinned.
if os.environ.get("PYTHONHASHSEED") is None:
    os.environ["PYTHONHASHSEED"] = "0"
    os.environ.setdefault("PYTHONDONTWRITEBYTECODE", "1")
    os.execv(sys.executable, [sys.executable] + sys.argv)

# Nothing the harness runs may ever wait on the real terminal or read the caller's stdin.
_dn = os.open(os.devnull, os.O_RDONLY)
os.dup2(_dn, 0)
os.close(_dn)

import sim  # noqa: E402

sim.use_repo()


def main(argv):
    import argparse
    ap = argparse.ArgumentParser()
    ap.add_argument("prop", choices=["C12", "C18", "C19"])
    ap.add_argument("--tier", default=None)
    ap.add_argument("--replay", default=None)
    ap.add_argument("--digests", default=None)
    ap.add_argument("--selftest-determinism", action="store_true")
    a = ap.parse_args(argv)
    from sim.runner import EXIT_HARNESS, HarnessFailure, tier
    t = tier(a.tier)
    try:
        if a.prop in ("C18", "C19"):
            from sim import checks_dec as cd
            if a.digests is not None:
                return cd.digests_only(a.prop, [int(x) for x in a.digests.split(",") if x])
            if a.replay:
                return (cd.replay_c19 if a.prop == "C19" else cd.replay_c18)(a.replay)
            return (cd.main_c19 if a.prop == "C19" else cd.main_c18)(t)
        from sim import c12
        if a.digests is not None:
            return c12.digests(t)
        if a.replay:
            return c12.replay(a.replay)
        return c12.main(t)
    except HarnessFailure as e:
        print("HARNESS-ERROR: %s" % e, flush=True)
        return EXIT_HARNESS
    except Exception:
        traceback.print_exc()
        print("HARNESS-ERROR: internal exception", flush=True)
        return EXIT_HARNESS


if __name__ == "__main__":
    sys.exit(main(sys.argv[1:]))
