#!/bin/sh
# Offline setup: nothing is installed; verify the interpreter, the repo import and the seams.
cd "$(dirname "$0")" || exit 1
mkdir -p evidence replays
/venv/bin/python - <<'PY' || exit 1
import sys
assert sys.version_info >= (3, 12), "sys.monitoring (PEP 669) needs Python 3.12"
assert hasattr(sys, "monitoring")
sys.path.insert(0, ".")
import sim
sim.use_repo()
import coco, parsimonious, pydantic, png, PIL  # noqa
print("setup ok: python", sys.version.split()[0], "coco from", coco.__file__)
PY
