#!/bin/sh
# selftest/mkmutant.sh <name> <file> <python-expr transforming s>   -> selftest/mutants/<name>.patch
# Builds a patch against /repo HEAD by editing a scratch copy of one file.
cd "$(dirname "$0")/.." || exit 2
name="$1"; file="$2"; expr="$3"
d="${TMPDIR:-/dev/shm}/mk.$$"; mkdir -p "$d/a/$(dirname "$file")" "$d/b/$(dirname "$file")"
cp "/repo/$file" "$d/a/$file"; cp "/repo/$file" "$d/b/$file"
python3 - "$d/b/$file" "$expr" <<'PY' || { rm -rf "$d"; exit 1; }
import sys
p, expr = sys.argv[1], sys.argv[2]
s = open(p).read()
t = eval(expr)
assert t != s, "edit changed nothing"
open(p, "w").write(t)
PY
(cd "$d" && diff -u "a/$file" "b/$file") > "selftest/mutants/$name.patch"
rm -rf "$d"; echo "wrote selftest/mutants/$name.patch"
