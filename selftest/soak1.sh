#!/bin/sh
# selftest/soak1.sh <prop> <first-seed> <last-seed> : one check, many seeds
cd "$(dirname "$0")/.." || exit 2
prop="$1"; bad=0
for s in $(seq "$2" "$3"); do
  out=$(VERIF_SEED=$s ./check $prop 2>&1); rc=$?
  if [ $rc != 0 ]; then bad=$((bad+1)); echo "FAIL seed=$s $prop rc=$rc"; printf '%s\n' "$out" | grep -E 'VIOLATION|signature|dependence|HARNESS' | head -6; else echo "ok seed=$s $prop"; fi
done
echo "failures: $bad"; [ "$bad" = 0 ]
