#!/bin/sh
# selftest/soak.sh <first-seed> <last-seed> [tier] : the unchanged tree must pass for every seed.
cd "$(dirname "$0")/.." || exit 2
a="$1"; b="$2"; tier="${3:-quick}"; bad=0
for s in $(seq "$a" "$b"); do
  for prop in C12 C18 C19; do
    out=$(VERIF_SEED=$s ./check $prop --tier $tier 2>&1); rc=$?
    if [ $rc != 0 ]; then bad=$((bad+1)); echo "FAIL seed=$s $prop rc=$rc"; printf '%s\n' "$out" | grep -E 'VIOLATION|signature|dependence|HARNESS|Traceback|Error' | head -8; 
    else echo "ok seed=$s $prop $(printf '%s\n' "$out" | tail -1 | sed 's/.*, //')"; fi
  done
done
echo "failures: $bad"; [ "$bad" = 0 ]
