#!/bin/sh
# Full sensitivity / no-false-alarm battery (long). Not a manifest command.
cd "$(dirname "$0")/.." || exit 2
echo "== own mutants"; 
for p in selftest/mutants/*.patch; do
  case "$(basename $p)" in
    c12-*|revert-610*|revert-1d73cb9*) prop=C12;; c18-*) prop=C18;; *) prop=C19;;
  esac
  selftest/mutants.sh $prop $p
done
echo "== seeded"; for d in seeded/*/; do selftest/seeded.sh $d; done
echo "== benign"; selftest/benign.sh
