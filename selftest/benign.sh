#!/bin/sh
# selftest/benign.sh [patch...] : correct variants of the code must NOT raise an alarm.
# Each patch of selftest/benign/ is applied to a scratch copy and all three quick checks run.
cd "$(dirname "$0")/.." || exit 2
[ $# -gt 0 ] || set -- selftest/benign/*.patch
base="${TMPDIR:-/dev/shm}"; bad=0
for p in "$@"; do
  d="$base/coco-ben.$$"; rm -rf "$d"; mkdir -p "$d"
  (cd /repo && git ls-files -z | xargs -0 cp --parents -t "$d") || exit 2
  if ! (cd "$d" && patch -p1 -s < "$OLDPWD/$p" >/dev/null 2>&1); then echo "SKIP $p"; rm -rf "$d"; continue; fi
  for prop in ${PROPS:-C12 C18 C19}; do
    out=$(VERIF_REPO="$d" ./check $prop 2>&1); rc=$?
    echo "rc=$rc $prop $p"
    if [ $rc != 0 ]; then bad=$((bad+1)); printf '%s\n' "$out" | grep -E 'VIOLATION|signature|dependence|HARNESS' | head -5; fi
  done
  rm -rf "$d"
done
echo "false alarms: $bad"; [ "$bad" = 0 ]
