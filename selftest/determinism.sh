#!/bin/sh
# selftest/determinism.sh [nseeds] [scale]
# Every VERIF_SEED is run twice per check, in fresh interpreters, at different worker counts and
# under different PYTHONHASHSEEDs of the harness; the report digests (hash of all per-run
# digests: outcome, output bytes, step count, stream-event log) must be identical.
cd "$(dirname "$0")/.." || exit 2
n="${1:-8}"; scale="${2:-0.05}"; bad=0
for s in $(seq 1 "$n"); do
  for prop in C12 C18 C19; do
    a=$(VERIF_SEED=$s VERIF_SCALE=$scale VERIF_WORKERS=16 PYTHONHASHSEED=0 ./check $prop | grep '^REPORT-DIGEST')
    b=$(VERIF_SEED=$s VERIF_SCALE=$scale VERIF_WORKERS=3 PYTHONHASHSEED=$((s * 7919 + 13)) ./check $prop | grep '^REPORT-DIGEST')
    if [ -n "$a" ] && [ "$a" = "$b" ]; then echo "same  seed=$s $a"; else echo "DIFF  seed=$s $prop [$a] [$b]"; bad=$((bad + 1)); fi
  done
done
echo "mismatches: $bad"; [ "$bad" = 0 ]
