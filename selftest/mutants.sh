#!/bin/sh
# Sensitivity self-test: apply each patch of selftest/mutants/ (or the ones named on the
# command line) to a scratch copy of /repo and run the quick check of the given property.
# usage: selftest/mutants.sh <C12|C18|C19> [patch...]     (not a registered manifest command)
cd "$(dirname "$0")/.." || exit 2
prop="$1"; shift
[ $# -gt 0 ] || set -- selftest/mutants/*.patch
base="${TMPDIR:-/dev/shm}"
for p in "$@"; do
  d="$base/coco-mut.$$"
  rm -rf "$d"; mkdir -p "$d"
  (cd /repo && git ls-files -z | xargs -0 cp --parents -t "$d") || exit 2
  if ! (cd "$d" && patch -p1 -s < "$OLDPWD/$p" >/dev/null 2>&1); then
    echo "SKIP  $p (does not apply)"; rm -rf "$d"; continue
  fi
  out=$(VERIF_REPO="$d" VERIF_SCALE="${VERIF_SCALE:-1}" ./check "$prop" 2>&1); rc=$?
  nv=$(printf '%s\n' "$out" | grep -c '^VIOLATION')
  echo "rc=$rc violations=$nv  $p"
  [ -n "$VERBOSE" ] && printf '%s\n' "$out" | grep -E 'VIOLATION|signature|dependence|HARNESS|KNOWN' | head -8
  rm -rf "$d"
done
