#!/bin/sh
# own mutants + seeded changes (sensitivity half of selftest/all.sh)
cd "$(dirname "$0")/.." || exit 2
echo "== own mutants"
for p in selftest/mutants/*.patch; do
  case "$(basename $p)" in
    c12-*|revert-610*|revert-1d73cb9*) prop=C12;; c18-*) prop=C18;; *) prop=C19;;
  esac
  selftest/mutants.sh $prop $p
done
echo "== seeded"; for d in seeded/*/; do selftest/seeded.sh $d; done
