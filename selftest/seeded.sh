#!/bin/sh
# selftest/seeded.sh <dir with patch.diff demo.py meta.json> [check-tier]
# Confirms a seeded change (suite passes, demo fails with / passes without) in a scratch copy of
# /repo and runs the check of the property it breaks against that copy.
dir=$(cd "$1" && pwd); tier="${2:-quick}"
cd "$(dirname "$0")/.." || exit 2
prop=$(python3 -c "import json,sys;print(json.load(open('$dir/meta.json'))['property'])")
base="${TMPDIR:-/dev/shm}"; d="$base/coco-seed.$$"; rm -rf "$d"; mkdir -p "$d"
(cd /repo && git ls-files -z | xargs -0 cp --parents -t "$d") || exit 2
PYTHONPATH="$d" timeout 600 /venv/bin/python "$dir/demo.py" >/dev/null 2>&1; clean=$?
if ! (cd "$d" && patch -p1 -s < "$dir/patch.diff" >/dev/null 2>&1); then echo "$dir: patch does not apply"; rm -rf "$d"; exit 2; fi
suite=$(cd "$d" && /venv/bin/python -m pytest -q -p no:cacheprovider --timeout=900 2>&1 | tail -1)
PYTHONPATH="$d" timeout 600 /venv/bin/python "$dir/demo.py" >/dev/null 2>&1; mut=$?
out=$(VERIF_REPO="$d" ./check "$prop" --tier "$tier" 2>&1); rc=$?
nv=$(printf '%s\n' "$out" | grep -c '^VIOLATION')
echo "$dir: prop=$prop demo(clean)=$clean demo(mutant)=$mut suite=[$suite] check rc=$rc violations=$nv"
[ -n "$VERBOSE" ] && printf '%s\n' "$out" | grep -E 'VIOLATION|signature|dependence|HARNESS|KNOWN' | head -8
rm -rf "$d"
