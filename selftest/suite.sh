#!/bin/sh
# selftest/suite.sh <patch>...  : does the repository's own test suite still pass with the patch?
cd "$(dirname "$0")/.." || exit 2
base="${TMPDIR:-/dev/shm}"
for p in "$@"; do
  d="$base/coco-suite.$$"; rm -rf "$d"; mkdir -p "$d"
  (cd /repo && git ls-files -z | xargs -0 cp --parents -t "$d") || exit 2
  if ! (cd "$d" && patch -p1 -s < "$OLDPWD/$p" >/dev/null 2>&1); then echo "SKIP $p"; rm -rf "$d"; continue; fi
  r=$(cd "$d" && /venv/bin/python -m pytest -q -p no:cacheprovider --timeout=900 -x 2>&1 | tail -1)
  echo "$r  $p"; rm -rf "$d"
done
